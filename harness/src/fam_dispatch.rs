//! Dispatch family (C07, schedules): the process's first calls to compare
//! and finalize made by 8 threads at once, behind a barrier.
use crate::fam_codec::image;
use crate::fam_gen::{craft_state, state_json};
use crate::json::*;
use crate::rng::Rng;
use crate::variants::*;
use std::sync::{Arc, Barrier, Mutex};

fn cells() -> (bool, [bool; 5]) {
    let d = tlsh::verif::dist_body::dispatch_initialized();
    let a = tlsh::verif::bucket_aggregation::dispatch_initialized();
    let dynamic = d.is_some() || a.is_some();
    let d = d.unwrap_or((false, false));
    let a = a.unwrap_or((false, false, false));
    (dynamic, [d.0, d.1, a.0, a.1, a.2])
}

fn cells_json(c: &[bool; 5]) -> String {
    format!("[{},{},{},{},{}]", c[0], c[1], c[2], c[3], c[4])
}

/// A spinning barrier: the threads leave it within nanoseconds of one another.
struct Spin {
    count: std::sync::atomic::AtomicUsize,
    generation: std::sync::atomic::AtomicUsize,
    n: usize,
}
impl Spin {
    fn wait(&self) {
        use std::sync::atomic::Ordering::*;
        let g = self.generation.load(Acquire);
        if self.count.fetch_add(1, AcqRel) + 1 == self.n {
            self.count.store(0, Relaxed);
            self.generation.fetch_add(1, Release);
        } else {
            while self.generation.load(Acquire) == g {
                std::hint::spin_loop();
            }
        }
    }
}

pub fn run(out: &mut Out, seed: u64) {
    run_n(out, seed, 1)
}

/// `rounds` > 1: every thread repeats its five calls (allocation under contention, C18)
pub fn run_n(out: &mut Out, seed: u64, rounds: usize) {
    const THREADS: usize = 8;
    out.emit(Ev::new("dreset").meas(0, ""));
    let barrier = Arc::new(Barrier::new(THREADS));
    let lines: Arc<Mutex<Vec<(usize, Vec<String>)>>> = Arc::new(Mutex::new(Vec::new()));
    let mut handles = Vec::new();
    for t in 0..THREADS {
        let barrier = barrier.clone();
        let lines = lines.clone();
        handles.push(std::thread::spawn(move || {
            let mut rng = Rng::new(seed.wrapping_mul(1000).wrapping_add(t as u64));
            // prepare all operands before the barrier: nothing here touches the dispatch cells
            let mut ops: Vec<(String, &'static dyn Var, Vec<u8>, Vec<u8>, Option<tlsh::verif::VerifGeneratorState>)> = Vec::new();
            let mut order: Vec<usize> = (0..5).collect();
            for i in (1..5).rev() {
                let j = rng.below(i as u64 + 1) as usize;
                order.swap(i, j);
            }
            let order: Vec<usize> = (0..rounds).flat_map(|_| order.clone()).collect();
            for k in order {
                match k {
                    0 | 1 => {
                        let v = if k == 0 { variant("Normal") } else { variant("Long") };
                        ops.push(("cmp".into(), v, image(v, &mut rng), image(v, &mut rng), None));
                    }
                    _ => {
                        let v = match k {
                            2 => variant("Short"),
                            3 => variant("Normal"),
                            _ => variant("Long"),
                        };
                        let recipe = rng.below(12) as usize;
                        let st = craft_state(v, &mut rng, recipe);
                        ops.push(("fin".into(), v, vec![], vec![], Some(st)));
                    }
                }
            }
            let mut mine = Vec::new();
            barrier.wait();
            for (seq, (op, v, a, b, st)) in ops.into_iter().enumerate() {
                let (dynamic, before) = cells();
                if op == "cmp" {
                    let (ha, hb) = (v.hash(&a).unwrap(), v.hash(&b).unwrap());
                    let o = ha.compare(hb.as_ref(), false);
                    let (_, after) = cells();
                    mine.push(
                        Ev::new("dcall").num("t", t as i64).num("seq", seq as i64 + 1).str("op", "cmp").str("v", v.name())
                            .boolean("dyn", dynamic).raw("before", &cells_json(&before)).raw("after", &cells_json(&after))
                            .bytes("a1", &a).bytes("b1", &b).num("d", o.v.map(|x| x as i64).unwrap_or(-1))
                            .meas(o.a, &o.p).finish(),
                    );
                } else {
                    let st = st.unwrap();
                    let mut g = v.gen_new().v.unwrap();
                    g.import(&st);
                    let o = g.fin(31);
                    let (_, after) = cells();
                    mine.push(
                        Ev::new("dcall").num("t", t as i64).num("seq", seq as i64 + 1).str("op", "fin").str("v", v.name())
                            .boolean("dyn", dynamic).raw("before", &cells_json(&before)).raw("after", &cells_json(&after))
                            .raw("st", &state_json(&g.export()))
                            .raw("r", &res_json(&o.v.clone().unwrap_or(Err("PANIC".into()))))
                            .meas(o.a, &o.p).finish(),
                    );
                }
            }
            lines.lock().unwrap().push((t, mine));
        }));
    }
    for h in handles {
        let _ = h.join();
    }
    // Lockstep phase (contention runs only): all threads compare the SAME pairs at the same instant, one pair
    // for every value of the left operand's Q-ratio byte and of its length code: state that is built lazily
    // per operand VALUE is first touched by eight threads at once.
    if rounds > 1 {
        let spin = Arc::new(Spin { count: 0.into(), generation: 0.into(), n: THREADS });
        let v = variant("Normal");
        let mut rng = Rng::new(seed ^ 0x5eed);
        let mut pairs: Vec<(Vec<u8>, Vec<u8>)> = Vec::new();
        for k in 0..256usize {
            let (mut a, b) = (image(v, &mut rng), image(v, &mut rng));
            if !crate::fam_codec::STRICT {
                a[v.ck_len() + 1] = k as u8;
                a[v.ck_len()] = (k as u8).wrapping_mul(37);
            }
            pairs.push((a, b));
        }
        let pairs = Arc::new(pairs);
        let mut hs = Vec::new();
        for t in 0..THREADS {
            let (spin, pairs, lines) = (spin.clone(), pairs.clone(), lines.clone());
            hs.push(std::thread::spawn(move || {
                let mut mine = Vec::new();
                let prepared: Vec<_> = pairs.iter().map(|(a, b)| (v.hash(a).unwrap(), v.hash(b).unwrap())).collect();
                for (seq, (ha, hb)) in prepared.iter().enumerate() {
                    let (dynamic, before) = cells();
                    spin.wait();
                    let o = ha.compare(hb.as_ref(), false);
                    let (_, after) = cells();
                    mine.push(
                        Ev::new("dcall").num("t", 8 + t as i64).num("seq", seq as i64 + 1).str("op", "cmp").str("v", v.name())
                            .boolean("dyn", dynamic).raw("before", &cells_json(&before)).raw("after", &cells_json(&after))
                            .bytes("a1", &pairs[seq].0).bytes("b1", &pairs[seq].1).num("d", o.v.map(|x| x as i64).unwrap_or(-1))
                            .meas(o.a, &o.p).finish(),
                    );
                }
                lines.lock().unwrap().push((8 + t, mine));
            }));
        }
        for h in hs {
            let _ = h.join();
        }
    }
    let mut all = lines.lock().unwrap().clone();
    all.sort_by_key(|x| x.0);
    for (_, ls) in all {
        for l in ls {
            out.emit_raw(&l);
        }
    }
}
