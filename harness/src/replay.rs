//! The replayer (specification -> implementation): every transition TLC
//! explored in MCGenChunk is stepped through the real generator - import the
//! source state, apply the action, compare the exported state, processed_len
//! and all 32 finalize results with what the specification says.
use crate::json::*;
use crate::variants::*;
use serde_json::Value;
use tlsh::verif::VerifGeneratorState;

fn wide(v: &Value) -> Option<u32> {
    let a = v.as_array()?;
    let (hi, lo) = (a.first()?.as_i64()?, a.get(1)?.as_i64()?);
    if hi < 0 {
        return None;
    }
    Some(((hi as u32) << 16) | lo as u32)
}

fn state_of(v: &dyn Var, j: &Value) -> VerifGeneratorState {
    let mut bk = [0u32; 256];
    for (i, x) in j["bk"].as_array().unwrap().iter().enumerate() {
        bk[i] = wide(x).unwrap();
    }
    let mut ck = [0u8; 3];
    for (i, x) in j["ck"].as_array().unwrap().iter().enumerate() {
        ck[i] = x.as_u64().unwrap() as u8;
    }
    let mut tail = [0u8; 4];
    for (i, x) in j["tail"].as_array().unwrap().iter().enumerate() {
        tail[i] = x.as_u64().unwrap() as u8;
    }
    VerifGeneratorState {
        buckets: bk,
        num_buckets: v.nb(),
        len: wide(&j["len"]).unwrap(),
        checksum: ck,
        checksum_len: v.ck_len(),
        tail,
        tail_len: j["tailLen"].as_u64().unwrap() as u32,
    }
}

fn res_of(j: &Value) -> HRes {
    if j["ok"].as_bool().unwrap() {
        Ok(j["h"].as_array().unwrap().iter().map(|x| x.as_u64().unwrap() as u8).collect())
    } else {
        Err(j["err"].as_str().unwrap().to_string())
    }
}

/// Returns the number of mismatches; each is described on `out`.
pub fn run(path: &str, out: &mut Out) -> u64 {
    let text = std::fs::read_to_string(path).expect("replay file");
    let mut bad = 0u64;
    let mut n = 0u64;
    for (ln, line) in text.lines().enumerate() {
        if line.trim().is_empty() {
            continue;
        }
        let j: Value = serde_json::from_str(line).expect("replay line is JSON");
        let v = variant(j["v"].as_str().unwrap());
        let src = state_of(v, &j["src"]);
        let dst = state_of(v, &j["dst"]);
        let mut g = v.gen_new().v.unwrap();
        g.import(&src);
        let mut why: Vec<String> = Vec::new();
        let mut panic = String::new();
        let target: Box<dyn GenObj> = if j["kind"] == "clone" {
            let c = g.clone_box();
            panic = c.p.clone();
            match c.v {
                Some(c) => {
                    if g.export() != src {
                        why.push("clone disturbed the original".into());
                    }
                    c
                }
                None => g,
            }
        } else {
            let piece: Vec<u8> = j["piece"].as_array().unwrap().iter().map(|x| x.as_u64().unwrap() as u8).collect();
            let o = g.update(&piece);
            panic = o.p.clone();
            g
        };
        if !panic.is_empty() {
            why.push(format!("panic: {}", panic));
        }
        if target.export() != dst {
            why.push("state after the action differs from the specification".into());
        }
        if target.processed_len().v.unwrap_or(None) != wide(&j["plen"]) {
            why.push("processed_len differs".into());
        }
        for (o, exp) in j["fan"].as_array().unwrap().iter().enumerate() {
            let got = target.fin(o as u8);
            if got.v != Some(res_of(exp)) {
                why.push(format!("finalize under option set {} differs", o));
                break;
            }
        }
        if target.export() != dst {
            why.push("finalize disturbed the generator".into());
        }
        n += 1;
        if !why.is_empty() {
            bad += 1;
            out.emit(Ev::new("replay_mismatch").num("line", ln as i64 + 1).str("why", &why.join("; ")).raw("step", line));
        }
    }
    out.emit(Ev::new("replay_done").num("steps", n as i64).num("mismatches", bad as i64));
    bad
}
