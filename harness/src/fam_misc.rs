//! Beyond the listed properties: GeneratorOptions builder calls, the error
//! taxonomy (categories, Display texts), Default impls, equality laws.
use crate::fam_codec::image;
use crate::json::*;
use crate::rng::Rng;
use crate::variants::*;
use tlsh::{DataLengthProcessingMode, GeneratorOptions, GeneratorType, TlshGenerator};

const CALLS: [&str; 5] = ["length_mode_conservative", "pure_integer", "allow_small", "allow_half", "allow_quarter"];

fn apply(o: &mut GeneratorOptions, name: &str, v: bool) {
    match name {
        "length_mode_conservative" => {
            o.length_processing_mode(if v { DataLengthProcessingMode::Conservative } else { DataLengthProcessingMode::Optimistic });
        }
        "pure_integer" => {
            o.pure_integer_qratio_computation(v);
        }
        "allow_small" => {
            o.allow_small_size_files(v);
        }
        "allow_half" => {
            o.allow_statistically_weak_buckets_half(v);
        }
        _ => {
            o.allow_statistically_weak_buckets_quarter(v);
        }
    }
}

pub fn run(out: &mut Out, rng: &mut Rng, thorough: bool) {
    use tlsh::FuzzyHashType;
    // a fixed generator whose 32 results are not all alike: 60 bytes, sparse
    let data: Vec<u8> = (0..60u8).map(|i| b"ABCDEFGHIJKLMNOPQRST"[(i % 20) as usize]).collect();
    let mut g = TlshGenerator::new();
    g.update(&data);
    let img = |h: &tlsh::Tlsh| -> Vec<u8> {
        let mut v = Vec::new();
        v.extend_from_slice(h.checksum().data());
        v.push(h.length().value());
        v.push(h.qratios().value());
        v.extend_from_slice(h.body().data());
        v
    };
    let fan: Vec<HRes> = (0..32u8)
        .map(|o| g.finalize_with_options(&options(o)).map(|h| img(&h)).map_err(|e| format!("{:?}", e)))
        .collect();
    let fan_json = format!("[{}]", fan.iter().map(res_json).collect::<Vec<_>>().join(","));
    for _ in 0..(if thorough { 400 } else { 60 }) {
        let n = rng.range(0, 7) as usize;
        let mut o = GeneratorOptions::new();
        let mut calls = String::from("[");
        for i in 0..n {
            let name = *rng.pick(&CALLS);
            let v = rng.chance(1, 2);
            let m = obs(|| apply(&mut o, name, v));
            if !m.p.is_empty() {
                out.emit(Ev::new("opts").meas(0, &m.p));
            }
            if i > 0 {
                calls.push(',');
            }
            calls.push_str(&format!("[\"{}\",{}]", name, v));
        }
        calls.push(']');
        let fin = g.finalize_with_options(&o).map(|h| img(&h)).map_err(|e| format!("{:?}", e));
        out.emit(
            Ev::new("opts")
                .raw("calls", &calls)
                .boolean("compatible", o.is_tlsh_compatible())
                .boolean("eq_new", o == GeneratorOptions::new())
                .boolean("eq_default", o == GeneratorOptions::default())
                .raw("fin", &res_json(&fin))
                .raw("fan", &fan_json)
                .meas(0, ""),
        );
    }
    // error taxonomy
    use tlsh::{GeneratorError, OperationError, ParseError};
    let gens = [GeneratorError::TooLargeInput, GeneratorError::TooSmallInput, GeneratorError::BucketsAreHalfEmpty, GeneratorError::BucketsAreThreeQuarterEmpty];
    let gj = gens
        .iter()
        .map(|e| format!("{{\"name\":\"{:?}\",\"category\":\"{:?}\",\"text\":\"{}\"}}", e, e.category(), e))
        .collect::<Vec<_>>()
        .join(",");
    let pes = [ParseError::LengthIsTooLarge, ParseError::InvalidPrefix, ParseError::InvalidCharacter, ParseError::InvalidStringLength, ParseError::InvalidChecksum];
    let mut oj: Vec<String> = pes.iter().map(|e| format!("{{\"name\":\"{:?}\",\"text\":\"{}\"}}", e, e)).collect();
    oj.push(format!("{{\"name\":\"{:?}\",\"text\":\"{}\"}}", OperationError::BufferIsTooSmall, OperationError::BufferIsTooSmall));
    let mut ej: Vec<String> = Vec::new();
    #[cfg(feature = "easy")]
    {
        let good = "T1".to_string() + &"0".repeat(70);
        for bad in ["", "T2", "zz"] {
            let padded = if bad.len() == 2 { bad.to_string() + &"0".repeat(70) } else { bad.to_string() };
            for (l, r) in [(padded.as_str(), good.as_str()), (good.as_str(), padded.as_str())] {
                if let Err(e) = tlsh::compare(l, r) {
                    ej.push(format!("{{\"side\":\"{:?}\",\"name\":\"{:?}\",\"text\":\"{}\"}}", e.side(), e.inner_err(), e));
                }
            }
        }
    }
    let defaults = format!(
        "[\"{:?}\",\"{:?}\",\"{:?}\"]",
        tlsh::HexStringPrefix::default(),
        tlsh::ComparisonConfiguration::default(),
        DataLengthProcessingMode::default()
    );
    out.emit(
        Ev::new("errs")
            .raw("gen", &format!("[{}]", gj))
            .raw("other", &format!("[{}]", oj.join(",")))
            .raw("either", &format!("[{}]", ej.join(",")))
            .raw("defaults", &defaults)
            .meas(0, ""),
    );
    // equality laws on hash values
    for v in VARIANTS.iter() {
        for i in 0..(if thorough { 200 } else { 30 }) {
            let a = image(*v, rng);
            let b = match i % 3 {
                0 => a.clone(),
                1 => {
                    let mut b = a.clone();
                    let p = rng.below(b.len() as u64) as usize;
                    b[p] ^= 1 << rng.below(8);
                    if crate::fam_codec::STRICT { a.clone() } else { b }
                }
                _ => image(*v, rng),
            };
            let (ha, hb) = (v.hash(&a).unwrap(), v.hash(&b).unwrap());
            let m = obs(|| (ha.eq_(hb.as_ref()), hb.eq_(ha.as_ref()), ha.clone_box().eq_(ha.as_ref()), ha.eq_(ha.as_ref())));
            let (e1, e2, e3, e4) = m.v.unwrap_or((false, true, false, false));
            out.emit(
                Ev::new("eq").str("v", v.name()).bytes("a1", &a).bytes("b1", &b).boolean("eq", e1).boolean("eq_rev", e2)
                    .boolean("clone_eq", e3).boolean("self_eq", e4).meas(0, &m.p),
            );
        }
    }
}
