//! Beyond the listed properties: GeneratorOptions builder calls, the error
//! taxonomy (categories, Display texts), Default impls, equality laws.
use crate::fam_codec::image;
use crate::json::*;
use crate::rng::Rng;
use crate::variants::*;
use tlsh::{DataLengthProcessingMode, GeneratorOptions, GeneratorType, TlshGenerator};

const CALLS: [&str; 5] = ["length_mode_conservative", "pure_integer", "allow_small", "allow_half", "allow_quarter"];

fn apply(o: &mut GeneratorOptions, name: &str, v: bool) {
    match name {
        "length_mode_conservative" => {
            o.length_processing_mode(if v { DataLengthProcessingMode::Conservative } else { DataLengthProcessingMode::Optimistic });
        }
        "pure_integer" => {
            o.pure_integer_qratio_computation(v);
        }
        "allow_small" => {
            o.allow_small_size_files(v);
        }
        "allow_half" => {
            o.allow_statistically_weak_buckets_half(v);
        }
        _ => {
            o.allow_statistically_weak_buckets_quarter(v);
        }
    }
}

/// Specification -> implementation: every builder-call history TLC explored in MCOptions is applied
/// to a real GeneratorOptions; the object must equal the canonical object of the option number the
/// specification derives, is_tlsh_compatible must agree and finalizing fixed generators with it must
/// give that option number's result.
pub fn replay_opts(path: &str, fans_path: &str, out: &mut Out) -> u64 {
    use serde_json::Value;
    // The fixed generators are set up through a recording Session: `fans_path` receives an ordinary
    // generator trace (gen_new / gen_update / gen_inject / gen_fin) which the driver has TLC validate
    // against Generator.tla / Reference.tla.  The 32 results per generator used below are therefore the
    // specification's, or the run is a violation before any history is looked at.
    let mut fans_out = Out::create(fans_path);
    let v = variant("Normal");
    let mut s = crate::fam_gen::Session::new(&mut fans_out, v);
    // generators whose 32 results are not all alike: sparse 60 bytes, 30 bytes, 49 bytes, 300 mixed bytes ...
    let mut inputs: Vec<Vec<u8>> = vec![
        (0..60u8).map(|i| b"ABCDEFGHIJKLMNOPQRST"[(i % 20) as usize]).collect(),
        (0..30u8).map(|i| i.wrapping_mul(37).wrapping_add(11)).collect(),
        (0..49u8).map(|i| i.wrapping_mul(101).wrapping_add(7)).collect(),
        (0..300u32).map(|i| (i.wrapping_mul(i).wrapping_mul(31).wrapping_add(i * 7) % 251) as u8).collect(),
        (0..400u32).map(|i| b"abcabdabe"[(i % 9) as usize]).collect(),
        (0..400u32).map(|i| b"abcd"[(i % 4) as usize]).collect(),
        (0..100u32).map(|i| b"abcd"[(i % 4) as usize]).collect(),
    ];
    // an input of at least 256 bytes that is half-empty but not three-quarter-empty (searched: periods 4..40)
    for p in 4..40usize {
        let pat: Vec<u8> = (0..p).map(|i| ((i * i * 7 + i * 13 + p) % 251) as u8).collect();
        let d: Vec<u8> = (0..400).map(|i| pat[i % p]).collect();
        let mut g = TlshGenerator::new();
        g.update(&d);
        if matches!(g.finalize_with_options(&options(1)), Err(tlsh::GeneratorError::BucketsAreHalfEmpty)) && g.finalize_with_options(&options(9)).is_ok() {
            inputs.push(d);
            break;
        }
    }
    let mut gens: Vec<Box<dyn GenObj>> = Vec::new();
    let mut fans: Vec<Vec<HRes>> = Vec::new();
    let mut keep = |s: &mut crate::fam_gen::Session| {
        s.fin(0);
        fans.push((0..32u8).map(|o| s.g(0).fin(o).v.unwrap_or(Err("PANIC".into()))).collect());
        gens.push(s.g(0).clone_box().v.expect("clone"));
    };
    for d in inputs.iter() {
        s.new_gen(0);
        s.update(0, d);
        keep(&mut s);
    }
    // a state with huge counters on which the legacy f32 and the pure-integer Q ratios differ (through the hook)
    let mut x = 0x9e3779b97f4a7c15u64;
    for _ in 0..400 {
        let mut g = TlshGenerator::new();
        g.update(&inputs[3]);
        let mut st = g.verif_export();
        for b in st.buckets.iter_mut().take(128) {
            x ^= x << 13;
            x ^= x >> 7;
            x ^= x << 17;
            *b = (1u32 << 24) + (x % ((1u64 << 31) - (1u64 << 24))) as u32;
        }
        g.verif_import(&st);
        let a = g.finalize_with_options(&options(0));
        let b = g.finalize_with_options(&options(2));
        if a.is_ok() && b.is_ok() && a != b {
            s.inject(0, &st);
            keep(&mut s);
            break;
        }
    }
    drop(keep);
    drop(s);
    fans_out.flush();
    let text = std::fs::read_to_string(path).expect("replay file");
    let (mut bad, mut n) = (0u64, 0u64);
    for (ln, line) in text.lines().enumerate() {
        if line.trim().is_empty() {
            continue;
        }
        let j: Value = serde_json::from_str(line).expect("replay line is JSON");
        let num = j["n"].as_u64().unwrap() as u8;
        let mut why: Vec<String> = Vec::new();
        let mut o = GeneratorOptions::new();
        for c in j["calls"].as_array().unwrap() {
            let (name, v) = (c[0].as_str().unwrap().to_string(), c[1].as_bool().unwrap());
            let m = obs(|| apply(&mut o, &name, v));
            if !m.p.is_empty() {
                why.push(format!("panic: {}", m.p));
            }
        }
        if o != options(num) {
            why.push(format!("not equal to the canonical object of option number {}", num));
        }
        if (o == GeneratorOptions::new()) != (num == 2) || (o == GeneratorOptions::default()) != (num == 2) {
            why.push("equality with new() / default() differs".into());
        }
        if o.is_tlsh_compatible() != j["compatible"].as_bool().unwrap() {
            why.push("is_tlsh_compatible differs".into());
        }
        for (g, fan) in gens.iter().zip(fans.iter()) {
            let got = g.fin_with(&o).v.unwrap_or(Err("PANIC".into()));
            if got != fan[num as usize] {
                why.push(format!("finalize differs from the result of option number {}", num));
                break;
            }
        }
        n += 1;
        if !why.is_empty() {
            bad += 1;
            out.emit(Ev::new("replay_mismatch").num("line", ln as i64 + 1).str("why", &why.join("; ")).raw("step", line));
        }
    }
    // non-vacuity of the fixed generators: the fans must tell option numbers apart
    let mut classes: std::collections::BTreeMap<String, Vec<usize>> = std::collections::BTreeMap::new();
    for o in 0..32usize {
        classes.entry(fans.iter().map(|f| res_json(&f[o])).collect::<Vec<_>>().join("|")).or_default().push(o);
    }
    let cj = classes.values().map(|c| format!("{:?}", c)).collect::<Vec<_>>().join(",");
    out.emit(
        Ev::new("replay_done").num("steps", n as i64).num("mismatches", bad as i64)
            .num("distinct_fan_columns", classes.len() as i64).raw("fan_classes", &format!("[{}]", cj)),
    );
    bad
}

pub fn run(out: &mut Out, rng: &mut Rng, thorough: bool) {
    use tlsh::FuzzyHashType;
    // a fixed generator whose 32 results are not all alike: 60 bytes, sparse
    let data: Vec<u8> = (0..60u8).map(|i| b"ABCDEFGHIJKLMNOPQRST"[(i % 20) as usize]).collect();
    let mut g = TlshGenerator::new();
    g.update(&data);
    let img = |h: &tlsh::Tlsh| -> Vec<u8> {
        let mut v = Vec::new();
        v.extend_from_slice(h.checksum().data());
        v.push(h.length().value());
        v.push(h.qratios().value());
        v.extend_from_slice(h.body().data());
        v
    };
    let fan: Vec<HRes> = (0..32u8)
        .map(|o| g.finalize_with_options(&options(o)).map(|h| img(&h)).map_err(|e| format!("{:?}", e)))
        .collect();
    let fan_json = format!("[{}]", fan.iter().map(res_json).collect::<Vec<_>>().join(","));
    for _ in 0..(if thorough { 400 } else { 60 }) {
        let n = rng.range(0, 7) as usize;
        let mut o = GeneratorOptions::new();
        let mut calls = String::from("[");
        for i in 0..n {
            let name = *rng.pick(&CALLS);
            let v = rng.chance(1, 2);
            let m = obs(|| apply(&mut o, name, v));
            if !m.p.is_empty() {
                out.emit(Ev::new("opts").meas(0, &m.p));
            }
            if i > 0 {
                calls.push(',');
            }
            calls.push_str(&format!("[\"{}\",{}]", name, v));
        }
        calls.push(']');
        let fin = g.finalize_with_options(&o).map(|h| img(&h)).map_err(|e| format!("{:?}", e));
        out.emit(
            Ev::new("opts")
                .raw("calls", &calls)
                .boolean("compatible", o.is_tlsh_compatible())
                .boolean("eq_new", o == GeneratorOptions::new())
                .boolean("eq_default", o == GeneratorOptions::default())
                .raw("fin", &res_json(&fin))
                .raw("fan", &fan_json)
                .meas(0, ""),
        );
    }
    // error taxonomy
    use tlsh::{GeneratorError, OperationError, ParseError};
    let gens = [GeneratorError::TooLargeInput, GeneratorError::TooSmallInput, GeneratorError::BucketsAreHalfEmpty, GeneratorError::BucketsAreThreeQuarterEmpty];
    let gj = gens
        .iter()
        .map(|e| format!("{{\"name\":\"{:?}\",\"category\":\"{:?}\",\"text\":\"{}\"}}", e, e.category(), e))
        .collect::<Vec<_>>()
        .join(",");
    let pes = [ParseError::LengthIsTooLarge, ParseError::InvalidPrefix, ParseError::InvalidCharacter, ParseError::InvalidStringLength, ParseError::InvalidChecksum];
    let mut oj: Vec<String> = pes.iter().map(|e| format!("{{\"name\":\"{:?}\",\"text\":\"{}\"}}", e, e)).collect();
    oj.push(format!("{{\"name\":\"{:?}\",\"text\":\"{}\"}}", OperationError::BufferIsTooSmall, OperationError::BufferIsTooSmall));
    let mut ej: Vec<String> = Vec::new();
    #[cfg(feature = "easy")]
    {
        let good = "T1".to_string() + &"0".repeat(70);
        for bad in ["", "T2", "zz"] {
            let padded = if bad.len() == 2 { bad.to_string() + &"0".repeat(70) } else { bad.to_string() };
            for (l, r) in [(padded.as_str(), good.as_str()), (good.as_str(), padded.as_str())] {
                if let Err(e) = tlsh::compare(l, r) {
                    ej.push(format!("{{\"side\":\"{:?}\",\"name\":\"{:?}\",\"text\":\"{}\"}}", e.side(), e.inner_err(), e));
                }
            }
        }
    }
    let defaults = format!(
        "[\"{:?}\",\"{:?}\",\"{:?}\"]",
        tlsh::HexStringPrefix::default(),
        tlsh::ComparisonConfiguration::default(),
        DataLengthProcessingMode::default()
    );
    out.emit(
        Ev::new("errs")
            .raw("gen", &format!("[{}]", gj))
            .raw("other", &format!("[{}]", oj.join(",")))
            .raw("either", &format!("[{}]", ej.join(",")))
            .raw("defaults", &defaults)
            .meas(0, ""),
    );
    // Debug formatting of every public value type (its text is unspecified; it must return, and say something)
    {
        use tlsh::hash::checksum::FuzzyHashChecksum;
        let m = obs(|| {
            let mut lens: Vec<usize> = Vec::new();
            let mut gen = TlshGenerator::new();
            lens.push(format!("{:?}", gen).len());
            gen.update(&data);
            lens.push(format!("{:?}", gen).len());
            lens.push(format!("{:#?}", gen).len());
            let fin = gen.finalize_with_options(&options(31));
            lens.push(format!("{:?}", fin).len());
            if let Ok(h) = &fin {
                lens.push(format!("{:?}", h).len());
                lens.push(format!("{:#?}", h).len());
                lens.push(format!("{:?}", h.body()).len());
                lens.push(format!("{:?}", h.checksum()).len());
                lens.push(format!("{:?}", h.checksum().is_valid()).len());
                lens.push(format!("{:?}", h.qratios()).len());
                lens.push(format!("{:?}", h.length()).len());
                lens.push(format!("{:?}", h.length().range()).len());
            }
            lens.push(format!("{:?}", GeneratorOptions::new()).len());
            lens.push(format!("{:?}", options(31)).len());
            lens.push(format!("{:?}", tlsh::length::DataLengthValidity::new::<128>(10)).len());
            lens.push(format!("{:?}", tlsh::length::FuzzyHashLengthEncoding::new(u32::MAX)).len());
            lens.push(format!("{:?}", tlsh::GeneratorError::TooLargeInput.category()).len());
            lens.push(format!("{:?}", "T1".parse::<tlsh::Tlsh>()).len());
            lens
        });
        let lens = m.v.clone().unwrap_or_default();
        out.emit(Ev::new("dbg").raw("lens", &format!("{:?}", lens)).meas(0, &m.p));
    }
    // equality laws on hash values
    for v in VARIANTS.iter() {
        for i in 0..(if thorough { 200 } else { 30 }) {
            let a = image(*v, rng);
            let b = match i % 3 {
                0 => a.clone(),
                1 => {
                    let mut b = a.clone();
                    let p = rng.below(b.len() as u64) as usize;
                    b[p] ^= 1 << rng.below(8);
                    if crate::fam_codec::STRICT { a.clone() } else { b }
                }
                _ => image(*v, rng),
            };
            let (ha, hb) = (v.hash(&a).unwrap(), v.hash(&b).unwrap());
            let m = obs(|| (ha.eq_(hb.as_ref()), hb.eq_(ha.as_ref()), ha.clone_box().eq_(ha.as_ref()), ha.eq_(ha.as_ref())));
            let (e1, e2, e3, e4) = m.v.unwrap_or((false, true, false, false));
            out.emit(
                Ev::new("eq").str("v", v.name()).bytes("a1", &a).bytes("b1", &b).boolean("eq", e1).boolean("eq_rev", e2)
                    .boolean("clone_eq", e3).boolean("self_eq", e4).meas(0, &m.p),
            );
        }
    }
}
