//! Length-code family (C09): the exhaustive sweep of all 2^32 lengths,
//! compressed losslessly into maximal runs, and all 256 raw codes.
use crate::json::*;
use crate::variants::*;
use tlsh::length::FuzzyHashLengthEncoding;

/// outcome of encoding one length: (new(len) code or -1, try_from(len) code or -1)
#[inline]
fn outcome(n: u32) -> (i32, i32) {
    let a = FuzzyHashLengthEncoding::new(n).map(|c| c.value() as i32).unwrap_or(-1);
    let b = match FuzzyHashLengthEncoding::try_from(n) {
        Ok(c) => c.value() as i32,
        Err(tlsh::ParseError::LengthIsTooLarge) => -1,
        Err(_) => -2,
    };
    (a, b)
}

pub fn sweep(out: &mut Out, threads: usize) {
    let total: u64 = 1u64 << 32;
    let chunk = total / threads as u64;
    let mut handles = Vec::new();
    for t in 0..threads {
        let lo = t as u64 * chunk;
        let hi = if t == threads - 1 { total } else { lo + chunk };
        handles.push(std::thread::spawn(move || {
            let mut runs: Vec<(u32, u32, (i32, i32))> = Vec::new();
            let mut cur = outcome(lo as u32);
            let mut start = lo as u32;
            let mut n = lo + 1;
            while n < hi {
                let o = outcome(n as u32);
                if o != cur {
                    runs.push((start, (n - 1) as u32, cur));
                    cur = o;
                    start = n as u32;
                }
                n += 1;
            }
            runs.push((start, (hi - 1) as u32, cur));
            runs
        }));
    }
    let mut all: Vec<(u32, u32, (i32, i32))> = Vec::new();
    for h in handles {
        match h.join() {
            Ok(runs) => {
                for r in runs {
                    if let Some(last) = all.last_mut() {
                        if last.2 == r.2 && last.1.wrapping_add(1) == r.0 {
                            last.1 = r.1;
                            continue;
                        }
                    }
                    all.push(r);
                }
            }
            Err(_) => {
                out.emit(Ev::new("len_sweep_panic").meas(0, "panic in the length sweep"));
                return;
            }
        }
    }
    for (lo, hi, (a, b)) in all {
        out.emit(
            Ev::new("len_run")
                .raw("lo", &wide_json(lo))
                .raw("hi", &wide_json(hi))
                .num("code", a as i64)
                .num("tcode", b as i64)
                .meas(0, ""),
        );
    }
    out.emit(Ev::new("len_sweep_end").meas(0, ""));
}

/// value / is_valid / range of every raw code, obtained by parsing a hash
/// whose length field is that code (lenient builds only).
pub fn codes(out: &mut Out) {
    let v = variant("Normal");
    for c in 0..256u32 {
        let mut img = vec![0u8; v.size()];
        img[v.ck_len()] = c as u8;
        let r = v.from_slice(&img);
        let parsed = matches!(r.v, Some(Ok(_)));
        use tlsh::FuzzyHashType;
        let h = tlsh::hashes::Normal::try_from(&img[..]);
        let (value, valid, range) = match &h {
            Ok(h) => {
                let l = h.length();
                (
                    l.value() as i64,
                    l.is_valid(),
                    match l.range() {
                        Some(r) => format!("[{},{}]", wide_json(*r.start()), wide_json(*r.end())),
                        None => "[]".to_string(),
                    },
                )
            }
            Err(_) => (-1, false, "[]".to_string()),
        };
        out.emit(
            Ev::new("len_code")
                .num("c", c as i64)
                .boolean("parsed", parsed)
                .num("value", value)
                .boolean("valid", valid)
                .raw("range", &range)
                .meas(r.a, &r.p),
        );
    }
}
