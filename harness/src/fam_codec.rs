//! Codec family: formatting, parsing, binary conversion, caller buffers,
//! string comparison helpers, hex stage functions (C04 C05 C06 C13 C14 C15).
use crate::json::*;
use crate::rng::Rng;
use crate::variants::*;

pub const STRICT: bool = cfg!(feature = "strict");

fn each_variant(only: Option<&str>, mut f: impl FnMut(&'static dyn Var)) {
    for v in VARIANTS.iter() {
        if only.map_or(true, |o| o == v.name()) {
            f(*v);
        }
    }
}

/// A byte image this build's parser accepts.
pub fn image(v: &dyn Var, rng: &mut Rng) -> Vec<u8> {
    let mut b = rng.bytes(v.size());
    if STRICT {
        if v.nb() == 48 {
            b[0] %= 49;
        }
        b[v.ck_len()] %= 170;
    }
    b
}

pub fn special_images(v: &dyn Var, rng: &mut Rng) -> Vec<Vec<u8>> {
    let n = v.size();
    let mut out = vec![vec![0u8; n]];
    if !STRICT {
        out.push(vec![0xffu8; n]);
        out.push((0..n).map(|i| (i * 17 + 1) as u8).collect());
        out.push(vec![0xa5u8; n]);
    }
    for _ in 0..3 {
        out.push(image(v, rng));
    }
    // cross-format confusion: a binary image that starts like the text form
    if !(STRICT && v.nb() == 48) {
        let mut t = image(v, rng);
        t[0] = b'T';
        t[1] = b'1';
        if n > 4 {
            t[2] = b'T';
            t[3] = b'1';
        }
        if STRICT {
            t[v.ck_len()] %= 170;
        }
        out.push(t);
        let mut t: Vec<u8> = (0..n).map(|i| b"0123456789ABCDEFabcdef"[i % 22]).collect();
        if STRICT {
            t[v.ck_len()] %= 170;
        }
        out.push(t);
    }
    // sparse headers: each header byte (checksum bytes, length code, Q ratios) alone zero, and alone non-zero
    let hdr = v.ck_len() + 2;
    for p in 0..hdr {
        let mut a = image(v, rng);
        for q in 0..hdr {
            if a[q] == 0 {
                a[q] = 1;
            }
        }
        let mut b = a.clone();
        a[p] = 0;
        for q in 0..hdr {
            if q != p {
                b[q] = 0;
            }
        }
        out.push(a);
        out.push(b);
    }
    // coinciding fields: two header bytes equal, all header bytes equal, header bytes repeated in the body
    for i in 0..hdr {
        for j in (i + 1)..hdr {
            let mut a = image(v, rng);
            let x = 1 + rng.below(48) as u8;
            a[i] = x;
            a[j] = x;
            out.push(a);
        }
    }
    {
        let mut a = image(v, rng);
        let x = 1 + rng.below(48) as u8;
        for q in 0..hdr {
            a[q] = x;
        }
        a[hdr] = x;
        a[n - 1] = x;
        out.push(a);
    }
    // runs of seven equal bytes followed by a different one, at every alignment of the 8-byte groups
    for shift in 0..8usize {
        let (x, y) = (*rng.pick(&[0xffu8, 0x00, 0x3c, 0xa7]), rng.byte());
        let mut a = image(v, rng);
        for i in hdr..n {
            a[i] = if (i + shift) % 8 == 7 { if y == x { !x } else { y } } else { x };
        }
        out.push(a);
    }
    // bodies of decimal nibbles with ONE letter nibble per 16-byte block (first / middle / last byte, high / low)
    for pos in [0usize, 7, 8, 15] {
        for hi in [true, false] {
            let mut a = image(v, rng);
            for i in hdr..n {
                a[i] = if (i - hdr) % 16 == pos { if hi { 0xc5 } else { 0x5c } } else { 0x35 };
            }
            out.push(a);
        }
    }
    // uniform images (every byte the same) with unequal nibbles
    for x in [0x1bu8, 0xe4, 0x5a, 0x07, rng.byte()] {
        let mut u = vec![x; n];
        if STRICT {
            if v.nb() == 48 {
                u[0] %= 49;
            }
            u[v.ck_len()] %= 170;
        }
        out.push(u);
    }
    out
}

fn hex_of(v: &dyn Var, img: &[u8], with_prefix: bool) -> Vec<u8> {
    let h = v.hash(img).expect("acceptable image");
    let mut buf = vec![0u8; v.len_str()];
    let n = h.store_str(&mut buf, with_prefix).v.unwrap().unwrap();
    buf.truncate(n);
    buf
}

fn recase(s: &[u8], rng: &mut Rng, how: u8) -> Vec<u8> {
    s.iter()
        .enumerate()
        .map(|(i, &c)| {
            // never touch the "T1" prefix: it is case-sensitive
            let lower = match how {
                0 => false,
                1 => true,
                _ => rng.chance(1, 2),
            };
            if lower && c.is_ascii_uppercase() && !(i == 0 && c == b'T') {
                c.to_ascii_lowercase()
            } else {
                c
            }
        })
        .collect()
}

/// Texts with the same BYTE length as `canon` in which a multi-byte UTF-8 character straddles or
/// sits at a given byte offset (a character sweep at fixed character count cannot produce these).
/// A valid text wrapped in what a "helpful" front end might strip: byte-order marks, white space,
/// line ends, NULs, quotes, radix prefixes, signs - with the junk added (another length) and with the
/// junk replacing as many characters (the exact length kept).  All valid UTF-8.
pub fn wrapped_forms(canon: &[u8]) -> Vec<Vec<u8>> {
    let mut out = Vec::new();
    let l = canon.len();
    for junk in ["\u{feff}", " ", "\t", "\n", "\r\n", "\0", "\"", "'", "0x", "+", "\u{200b}", "\u{a0}"] {
        let j = junk.as_bytes();
        out.push([j, canon].concat());
        out.push([canon, j].concat());
        out.push([j, canon, j].concat());
        if j.len() + 2 < l {
            out.push([j, &canon[..l - j.len()]].concat());
            out.push([&canon[..l - j.len()], j].concat());
            out.push([&canon[..2], j, &canon[2 + j.len()..]].concat());
        }
    }
    out.retain(|s| std::str::from_utf8(s).is_ok());
    out
}

/// A value whose text form holds the digit pairs "FF", "AA" and "00" in the body.
pub fn ff_image(v: &dyn Var, rng: &mut Rng) -> Vec<u8> {
    let mut a = image(v, rng);
    let n = a.len();
    a[n - 1] = 0xff;
    a[n - 2] = 0xaa;
    a[n - 3] = 0x00;
    a[n - 4] = 0xff;
    a
}

/// The text with one digit, one digit pair or a prefix character replaced by a Unicode character that LOOKS
/// like it or whose upper / lower case mapping IS it: U+FB00 (its upper case is "FF"), full-width forms,
/// Cyrillic and Greek look-alikes, Roman numerals, mathematical digits, the Kelvin sign, long s, dotless i.
/// Every result is valid UTF-8 and never a valid hash text.
pub fn confusables(canon: &[u8]) -> Vec<Vec<u8>> {
    let text = match std::str::from_utf8(canon) {
        Ok(t) => t,
        Err(_) => return Vec::new(),
    };
    let mut out = Vec::new();
    let pairs: [(&str, &[&str]); 4] = [
        ("FF", &["\u{fb00}", "\u{ff26}\u{ff26}"]),
        ("AA", &["\u{410}\u{410}", "\u{391}A"]),
        ("00", &["\u{ff10}0", "\u{1d7ce}0", "\u{660}0"]),
        ("T1", &["\u{ff34}1", "\u{422}1", "T\u{ff11}", "\u{3a4}1", "T\u{217c}"]),
    ];
    for (from, tos) in pairs.iter() {
        for to in tos.iter() {
            // the last occurrence (the body) and the first one
            if let Some(i) = text.rfind(from) {
                out.push(format!("{}{}{}", &text[..i], to, &text[i + from.len()..]).into_bytes());
            }
            if let Some(i) = text.find(from) {
                out.push(format!("{}{}{}", &text[..i], to, &text[i + from.len()..]).into_bytes());
            }
        }
    }
    let singles: [(char, &[&str]); 8] = [
        ('A', &["\u{410}", "\u{391}", "\u{ff21}", "\u{ff41}"]),
        ('B', &["\u{412}", "\u{392}", "\u{df}"]),
        ('C', &["\u{421}", "\u{216d}", "\u{217d}"]),
        ('D', &["\u{216e}", "\u{217e}"]),
        ('E', &["\u{415}", "\u{395}"]),
        ('F', &["\u{ff26}", "\u{17f}"]),
        ('1', &["\u{131}", "\u{217c}", "\u{ff11}"]),
        ('5', &["\u{ff15}", "\u{1d7d3}"]),
    ];
    for (from, tos) in singles.iter() {
        if let Some(i) = text.char_indices().skip(2).find(|(_, c)| c == from).map(|(i, _)| i) {
            for to in tos.iter() {
                out.push(format!("{}{}{}", &text[..i], to, &text[i + 1..]).into_bytes());
            }
        }
    }
    out.push(text.replace('K', "\u{212a}").into_bytes());
    out.retain(|s| s != canon);
    out
}

pub fn non_ascii_same_length(canon: &[u8]) -> Vec<Vec<u8>> {
    let mut out = Vec::new();
    let l = canon.len();
    for (ch, w) in [("\u{e9}", 2usize), ("\u{20ac}", 3), ("\u{1f600}", 4)] {
        for at in [0usize, 1, 2, 3, l / 2, l.saturating_sub(w)] {
            if at + w > l {
                continue;
            }
            let mut s = canon.to_vec();
            s.splice(at..at + w, ch.as_bytes().iter().copied());
            if s.len() == l && std::str::from_utf8(&s).is_ok() {
                out.push(s);
            }
        }
    }
    out
}

fn emit_fmt(out: &mut Out, v: &dyn Var, img: &[u8]) {
    let h = match v.hash(img) {
        Some(h) => h,
        None => return,
    };
    let mut allocs = 0u64;
    let mut panic = String::new();
    let mut note = |a: u64, p: &str| {
        allocs += a;
        if !p.is_empty() && panic.is_empty() {
            panic = p.to_string();
        }
    };
    let d = h.display();
    let t = h.to_string_();
    let dw = h.display_spec();
    let conv_allocs = d.a + t.a;
    let conv_panic = if d.p.is_empty() { t.p.clone() } else { d.p.clone() };
    // destinations 0 / 9 / 18 bytes longer than needed (chosen by the value), cut to the size the call returned
    let slack = (img.iter().fold(0usize, |a, &b| a + b as usize) % 3) * 9;
    let mut b1 = vec![0x2au8; v.len_str() + slack];
    let r1 = h.store_str(&mut b1, true);
    note(r1.a, &r1.p);
    b1.truncate(r1.v.clone().and_then(|r| r.ok()).unwrap_or(0));
    let mut b2 = vec![0x2au8; v.len_str() - 2 + slack];
    let r2 = h.store_str(&mut b2, false);
    note(r2.a, &r2.p);
    b2.truncate(r2.v.clone().and_then(|r| r.ok()).unwrap_or(0));
    let mut b3 = vec![0x2au8; v.size() + slack];
    let r3 = h.store_bytes(&mut b3);
    note(r3.a, &r3.p);
    b3.truncate(r3.v.clone().and_then(|r| r.ok()).unwrap_or(0));
    let acc = h.accessors();
    note(acc.a, &acc.p);
    let mut quart = Vec::with_capacity(v.nb());
    for i in 0..v.nb() {
        let q = h.quartile(i);
        note(q.a, &q.p);
        quart.push(q.v.unwrap_or(255));
    }
    let qp = h.quartile(v.nb());
    let cl = h.cleared();
    note(cl.a, &cl.p);
    let a = match acc.v {
        Some(a) => a,
        None => return out.emit(Ev::new("fmt").str("v", v.name()).bytes("h", img).meas(allocs, &panic)),
    };
    let c = v.hash_consts();
    out.emit(
        Ev::new("fmt")
            .str("v", v.name())
            .bytes("h", img)
            .bytes("display", d.v.unwrap_or_default().as_bytes())
            .bytes("tostring", t.v.unwrap_or_default().as_bytes())
            .raw("display_spec", &format!("[{}]", dw.v.unwrap_or_default().iter().map(|x| bytes_json(x.as_bytes())).collect::<Vec<_>>().join(",")))
            .bytes("hexp", &b1)
            .bytes("hex", &b2)
            .bytes("bytes", &b3)
            .bytes("ck", &a.ck)
            .num("lv", a.lv as i64)
            .num("q", a.q as i64)
            .num("q1", a.q1 as i64)
            .num("q2", a.q2 as i64)
            .bytes("body", &a.body)
            .boolean("lv_valid", a.lv_valid)
            .boolean("ck_valid", a.ck_valid)
            .bytes("quart", &quart)
            .str("qpanic", &qp.p)
            .bytes("cleared", &cl.v.unwrap_or_default())
            .raw("consts", &format!("[{},{},{},{}]", c[0], c[1], c[2], c[3]))
            .num("a_conv", conv_allocs as i64)
            .str("p_conv", &conv_panic)
            .meas(allocs, &if panic.is_empty() { conv_panic.clone() } else { panic.clone() }),
    );
}

/// all parse entry points on one text: the common result, or DISAGREE
fn parse_all(v: &dyn Var, s: &[u8], with_prefix: bool) -> (HRes, u64, String) {
    let mode = if with_prefix { "WithVersion" } else { "Empty" };
    let st = std::str::from_utf8(s).unwrap();
    let rs = vec![
        v.parse_bytes(s, "None"),
        v.parse_bytes(s, mode),
        v.parse_with(st, "None"),
        v.parse_with(st, mode),
        v.parse_fromstr(st),
    ];
    let mut a = 0;
    let mut p = String::new();
    let mut vals: Vec<HRes> = Vec::new();
    for r in rs {
        a += r.a;
        if !r.p.is_empty() && p.is_empty() {
            p = r.p.clone();
        }
        vals.push(r.v.unwrap_or(Err("PANIC".into())));
    }
    let first = vals[0].clone();
    if vals.iter().all(|x| *x == first) {
        (first, a, p)
    } else {
        (Err("DISAGREE".into()), a, p)
    }
}

fn emit_fmt_sweep(out: &mut Out, v: &dyn Var, base: &[u8], pos: usize) {
    let mut texts = String::from("[");
    let mut back = String::from("[");
    let mut allocs = 0;
    let mut panic = String::new();
    for x in 0..256usize {
        let mut img = base.to_vec();
        img[pos] = x as u8;
        let h = v.hash(&img).expect("lenient build accepts every image");
        let mut buf = vec![0u8; v.len_str()];
        let r = h.store_str(&mut buf, true);
        allocs += r.a;
        if !r.p.is_empty() && panic.is_empty() {
            panic = r.p.clone();
        }
        let (res, a, p) = parse_all(v, &buf, true);
        allocs += a;
        if !p.is_empty() && panic.is_empty() {
            panic = p;
        }
        let mut nop = vec![0u8; v.len_str() - 2];
        let r2 = h.store_str(&mut nop, false);
        allocs += r2.a;
        let (res2, a2, p2) = parse_all(v, &nop, false);
        allocs += a2;
        if !p2.is_empty() && panic.is_empty() {
            panic = p2;
        }
        if x > 0 {
            texts.push(',');
            back.push(',');
        }
        texts.push_str(&bytes_json(&buf));
        let same = res == Ok(img.clone()) && res2 == Ok(img.clone());
        back.push_str(if same { "1" } else { "0" });
    }
    texts.push(']');
    back.push(']');
    out.emit(
        Ev::new("fmt_sweep")
            .str("v", v.name())
            .bytes("base", base)
            .num("pos", pos as i64 + 1)
            .raw("texts", &texts)
            .raw("back", &back)
            .meas(allocs, &panic),
    );
}

fn emit_parse(out: &mut Out, v: &dyn Var, entry: &str, mode: &str, text: &[u8]) {
    // the text is handed over at a varying alignment (offset 0..3 of its backing storage)
    let shift = (text.len() + text.first().copied().unwrap_or(0) as usize) % 4;
    let mut backing = vec![0u8; text.len() + 4];
    backing[shift..shift + text.len()].copy_from_slice(text);
    let s = &backing[shift..shift + text.len()];
    let r = match entry {
        "bytes" => v.parse_bytes(s, mode),
        "with" => match std::str::from_utf8(s) {
            Ok(st) => v.parse_with(st, mode),
            Err(_) => return,
        },
        _ => match std::str::from_utf8(s) {
            Ok(st) => v.parse_fromstr(st),
            Err(_) => return,
        },
    };
    let res = r.v.clone().unwrap_or(Err("PANIC".into()));
    let refmt = match &res {
        Ok(img) => v.hash(img).map(|h| {
            let mut b = vec![0u8; v.len_str()];
            let _ = h.store_str(&mut b, true);
            b
        }),
        Err(_) => None,
    };
    out.emit(
        Ev::new("parse")
            .str("v", v.name())
            .str("entry", entry)
            .str("mode", if entry == "fromstr" { "None" } else { mode })
            .bytes("s", s)
            .raw("r", &res_json(&res))
            .bytes("refmt", &refmt.unwrap_or_default())
            .meas(r.a, &r.p),
    );
}

fn err_code(e: &str) -> i64 {
    match e {
        "InvalidStringLength" => 1,
        "InvalidPrefix" => 2,
        "InvalidCharacter" => 3,
        "LengthIsTooLarge" => 4,
        "InvalidChecksum" => 5,
        _ => 9,
    }
}

fn emit_parse_sweep(out: &mut Out, v: &dyn Var, mode: &str, base: &[u8], pos: usize) {
    let mut rs = String::from("[");
    let mut oks = String::from("[");
    let mut first_ok = true;
    let mut allocs = 0;
    let mut panic = String::new();
    for x in 0..256usize {
        let mut s = base.to_vec();
        s[pos] = x as u8;
        let r = v.parse_bytes(&s, mode);
        allocs += r.a;
        if !r.p.is_empty() && panic.is_empty() {
            panic = r.p.clone();
        }
        if x > 0 {
            rs.push(',');
        }
        match r.v.unwrap_or(Err("PANIC".into())) {
            Ok(h) => {
                rs.push('0');
                if !first_ok {
                    oks.push(',');
                }
                first_ok = false;
                oks.push_str(&format!("[{},{}]", x, bytes_json(&h)));
            }
            Err(e) => rs.push_str(&err_code(&e).to_string()),
        }
    }
    rs.push(']');
    oks.push(']');
    out.emit(
        Ev::new("parse_sweep")
            .str("v", v.name())
            .str("mode", mode)
            .bytes("base", base)
            .num("pos", pos as i64 + 1)
            .raw("rs", &rs)
            .raw("oks", &oks)
            .meas(allocs, &panic),
    );
}

fn positions(n: usize, marks: &[usize], rng: &mut Rng, thorough: bool, extra: usize) -> Vec<usize> {
    if thorough {
        return (0..n).collect();
    }
    let mut p: Vec<usize> = marks.iter().copied().filter(|&i| i < n).collect();
    for _ in 0..extra {
        p.push(rng.below(n as u64) as usize);
    }
    p.sort();
    p.dedup();
    p
}

pub fn run_c04(out: &mut Out, rng: &mut Rng, thorough: bool, only: Option<&str>) {
    each_variant(only, |v| {
        for img in special_images(v, rng) {
            emit_fmt(out, v, &img);
        }
        for _ in 0..(if thorough { 60 } else { 6 }) {
            emit_fmt(out, v, &image(v, rng));
        }
        if !STRICT {
            let n = v.size();
            let c = v.ck_len();
            for pos in positions(n, &[0, c - 1, c, c + 1, c + 2, n - 1], rng, thorough, 2) {
                let base = rng.bytes(n);
                emit_fmt_sweep(out, v, &base, pos);
            }
            // one position swept over an otherwise UNIFORM value (run detection, lane-wise shortcuts)
            for x in [*rng.pick(&[0x00u8, 0x12, 0x99, 0x57]), *rng.pick(&[0xffu8, 0xe4, 0xab, 0xca])] {
                let base = vec![x; n];
                for pos in 0..n {
                    let k = pos.wrapping_sub(c + 2) % 8;
                    if pos < c + 2 || thorough || k == 0 || k == 7 || pos == n - 1 {
                        emit_fmt_sweep(out, v, &base, pos);
                    }
                }
            }
        }
        // accepted texts re-format to their own canonical form
        for _ in 0..(if thorough { 40 } else { 6 }) {
            let img = image(v, rng);
            for with_prefix in [true, false] {
                let canon = hex_of(v, &img, with_prefix);
                for how in 0..3u8 {
                    let s = recase(&canon, rng, how);
                    let own = if with_prefix { "WithVersion" } else { "Empty" };
                    for mode in ["None", own] {
                        emit_parse(out, v, "bytes", mode, &s);
                        emit_parse(out, v, "with", mode, &s);
                    }
                    emit_parse(out, v, "fromstr", "None", &s);
                }
            }
        }
        // near-canonical texts that must NOT be accepted: both digits of one byte non-hex, in every field
        for _ in 0..(if thorough { 30 } else { 6 }) {
            let img = image(v, rng);
            for with_prefix in [true, false] {
                let mut s = hex_of(v, &img, with_prefix);
                let off = if with_prefix { 2 } else { 0 };
                let bytes_n = (s.len() - off) / 2;
                let k = match rng.below(4) {
                    0 => 0,
                    1 => v.ck_len(),
                    2 => v.ck_len() + 1,
                    _ => rng.below(bytes_n as u64) as usize,
                };
                let bad = *rng.pick(b"zGg@`:/ \xff");
                s[off + 2 * k] = bad;
                s[off + 2 * k + 1] = *rng.pick(b"zGg@`:/ \xff");
                emit_parse(out, v, "bytes", "None", &s);
                if std::str::from_utf8(&s).is_ok() {
                    emit_parse(out, v, "fromstr", "None", &s);
                }
            }
        }
    });
    // texts that differ from a canonical one only in the prefix must not be accepted in ANY mode
    each_variant(only, |v| {
        for _ in 0..(if thorough { 10 } else { 2 }) {
            let canon = hex_of(v, &image(v, rng), true);
            for pre in [&b"T2"[..], b"t1", b"00", b"\0\0", b"1T", b"T0", b"FF"] {
                let mut s = canon.clone();
                s[..2].copy_from_slice(pre);
                for mode in ["None", "WithVersion", "Empty"] {
                    emit_parse(out, v, "bytes", mode, &s);
                    emit_parse(out, v, "with", mode, &s);
                }
                emit_parse(out, v, "fromstr", "None", &s);
            }
        }
    });
    each_variant(only, |v| {
        let canon = hex_of(v, &image(v, rng), true);
        // a relation between the two prefix bytes: both changed by the same / different xor values
        for k in 1..=255u8 {
            if !thorough && k % 4 != 1 && k != 0x20 && k != 0x65 {
                continue;
            }
            let mut s = canon.clone();
            s[0] ^= k;
            s[1] ^= k;
            emit_parse(out, v, "bytes", "None", &s);
            emit_parse(out, v, "bytes", "WithVersion", &s);
            let mut s = canon.clone();
            s.swap(0, 1);
            s[0] ^= k & 1;
            emit_parse(out, v, "bytes", "None", &s);
        }
        // every truncation / extension of a prefixed and of a bare text, in auto-detect mode
        for base in [canon.clone(), hex_of(v, &image(v, rng), false)] {
            for cut in 0..=(base.len() + 4) {
                let mut s = base.clone();
                s.resize(cut, b'0');
                for mode in ["None", "WithVersion", "Empty"] {
                    emit_parse(out, v, "bytes", mode, &s);
                }
            }
            // a longer text of another variant's length (cross-variant confusion)
            for extra in [4usize, 64, 68, 108] {
                let mut s = base.clone();
                s.resize(base.len() + extra, b'A');
                for mode in ["None", "WithVersion", "Empty"] {
                    emit_parse(out, v, "bytes", mode, &s);
                }
            }
        }
    });
    // canonical form rests on the digit decoders / encoders of this build
    stage_matrices(out);
}

fn junk(rng: &mut Rng, n: usize, class: u64) -> Vec<u8> {
    const DIG: &[u8] = b"0123456789abcdefABCDEF";
    const NEAR: &[u8] = b"/:@G`g Tt1\0\xff\x80\xc3";
    (0..n)
        .map(|_| match class {
            0 => *rng.pick(DIG),
            1 => rng.byte(),
            _ => {
                if rng.chance(1, 12) {
                    *rng.pick(NEAR)
                } else {
                    *rng.pick(DIG)
                }
            }
        })
        .collect()
}

pub fn run_c05(out: &mut Out, rng: &mut Rng, thorough: bool, only: Option<&str>) {
    const MODES: [&str; 3] = ["None", "Empty", "WithVersion"];
    each_variant(only, |v| {
        let ls = v.len_str();
        // (a) every length, several content classes
        let step = if thorough { 1 } else { 3 };
        let mut n = 0;
        while n <= 2 * ls {
            let near = n + 3 >= ls - 2 && n <= ls + 1;
            if near || n % step == 0 {
                for class in 0..3 {
                    let mut s = junk(rng, n, class);
                    if n >= 2 && rng.chance(2, 3) {
                        s[0] = b'T';
                        s[1] = b'1';
                    }
                    for mode in MODES {
                        emit_parse(out, v, "bytes", mode, &s);
                    }
                    emit_parse(out, v, "fromstr", "None", &s);
                }
            }
            n += 1;
        }
        // (b) a valid base text, one position swept over all byte values
        let c2 = 2 * v.ck_len();
        for (mode, with_prefix) in [("None", true), ("None", false), ("WithVersion", true), ("Empty", false)] {
            let base = recase(&hex_of(v, &image(v, rng), with_prefix), rng, 2);
            let off = if with_prefix { 2 } else { 0 };
            let marks = [0, 1, off, off + 1, off + c2 - 1, off + c2, off + c2 + 1, off + c2 + 2, off + c2 + 3, off + c2 + 4, base.len() - 1];
            for pos in positions(base.len(), &marks, rng, thorough, 2) {
                emit_parse_sweep(out, v, mode, &base, pos);
            }
        }
        // (b0) the same sweep over UNIFORM base texts (all '0', all 'F', all '9'): digit-run shortcuts
        for (ui, x) in [0x00u8, 0xff, 0x99].into_iter().enumerate() {
            let img = vec![x; v.size()];
            if STRICT && v.hash(&img).is_none() {
                continue;
            }
            let base = hex_text_unchecked(v, &img, ui % 2 == 0);
            let off = if ui % 2 == 0 { 2 } else { 0 };
            let body0 = off + c2 + 4;
            let mut ps: Vec<usize> = vec![off, off + c2, off + c2 + 2, body0, body0 + 1, body0 + 7, body0 + 8, body0 + 15, base.len() - 8, base.len() - 1];
            if thorough {
                ps = (0..base.len()).collect();
            }
            ps.sort();
            ps.dedup();
            for pos in ps {
                if pos < base.len() {
                    emit_parse_sweep(out, v, "None", &base, pos);
                }
            }
        }
        // (b') multi-byte UTF-8 characters at and across the field boundaries, BYTE length kept exact
        for with_prefix in [true, false] {
            let canon = hex_of(v, &image(v, rng), with_prefix);
            for s in non_ascii_same_length(&canon) {
                for mode in MODES {
                    emit_parse(out, v, "with", mode, &s);
                    emit_parse(out, v, "bytes", mode, &s);
                }
                emit_parse(out, v, "fromstr", "None", &s);
            }
        }
        // (b2) a valid text wrapped in strippable junk (length changed, and exact length kept)
        for with_prefix in [true, false] {
            let canon = hex_of(v, &image(v, rng), with_prefix);
            for s in wrapped_forms(&canon) {
                for mode in MODES {
                    emit_parse(out, v, "with", mode, &s);
                }
                emit_parse(out, v, "bytes", "None", &s);
                emit_parse(out, v, "fromstr", "None", &s);
            }
        }
        // (b3) the prefix position holding every ordered pair over a small alphabet around "T1"
        {
            let canon = hex_of(v, &image(v, rng), true);
            let alpha = b"T1t0I2lA";
            for &a in alpha.iter() {
                for &b in alpha.iter() {
                    let mut s = canon.clone();
                    s[0] = a;
                    s[1] = b;
                    for mode in ["None", "WithVersion"] {
                        emit_parse(out, v, "bytes", mode, &s);
                    }
                    emit_parse(out, v, "fromstr", "None", &s);
                }
            }
        }
        // (b4) each two-character header field: one character non-hexadecimal x the other over all 22 digits
        for with_prefix in [true, false] {
            let canon = hex_of(v, &image(v, rng), with_prefix);
            let off = if with_prefix { 2 } else { 0 };
            for field in 0..(v.ck_len() + 2) {
                for bad_at in 0..2usize {
                    for &bad in b"Gg:/@`".iter().take(if thorough { 6 } else { 2 }) {
                        for &d in b"0123456789ABCDEFabcdef".iter() {
                            let mut s = canon.clone();
                            s[off + 2 * field + bad_at] = bad;
                            s[off + 2 * field + 1 - bad_at] = d;
                            emit_parse(out, v, "bytes", "None", &s);
                        }
                    }
                }
            }
        }
        // (b4') BOTH characters of one digit pair replaced by the same non-hexadecimal byte (NUL, space, 0xFF ...):
        // every header pair, the first and last body pairs and two random ones
        for with_prefix in [true, false] {
            let canon = hex_of(v, &image(v, rng), with_prefix);
            let off = if with_prefix { 2 } else { 0 };
            let pairs_total = (canon.len() - off) / 2;
            let mut at: Vec<usize> = (0..(v.ck_len() + 3)).collect();
            at.extend([pairs_total - 1, pairs_total - 2, v.ck_len() + 2 + rng.below((pairs_total - v.ck_len() - 2) as u64) as usize]);
            for &pi in &at {
                for &bad in &[0x00u8, 0x20, 0xff, b'/', b':', b'G'] {
                    let mut s = canon.clone();
                    s[off + 2 * pi] = bad;
                    s[off + 2 * pi + 1] = bad;
                    emit_parse(out, v, "bytes", "None", &s);
                }
            }
        }
        // (b4'') VALID texts whose header bytes take the values 0, 1, 0x10, 0x80, 0xff pairwise (all others zero):
        // values that a packed decoder may use as an "invalid" sentinel must still be accepted
        if !STRICT {
            let hdr = v.ck_len() + 2;
            let vals = [0u8, 1, 0x10, 0x80, 0xff];
            for i in 0..hdr {
                for j in (i + 1)..hdr {
                    for &x in vals.iter() {
                        for &y in vals.iter() {
                            let mut a = image(v, rng);
                            for q in 0..hdr {
                                a[q] = 0;
                            }
                            a[i] = x;
                            a[j] = y;
                            let t = hex_of(v, &a, (i + j) % 2 == 0);
                            emit_parse(out, v, "bytes", "None", &t);
                        }
                    }
                }
            }
        }
        // (b5) TWO header fields each holding one non-hexadecimal character (every pair of fields, both positions)
        {
            let canon = hex_of(v, &image(v, rng), true);
            let fields = v.ck_len() + 2;
            for f1 in 0..fields {
                for f2 in (f1 + 1)..fields {
                    for (p1, p2) in [(0usize, 0usize), (0, 1), (1, 0), (1, 1)] {
                        let mut s = canon.clone();
                        s[2 + 2 * f1 + p1] = *rng.pick(b"Gg:/@`xZ");
                        s[2 + 2 * f2 + p2] = *rng.pick(b"Gg:/@`xZ");
                        emit_parse(out, v, "bytes", "None", &s);
                        if thorough {
                            emit_parse(out, v, "bytes", "Empty", &s[2..]);
                        }
                    }
                }
            }
        }
        // (b6) Unicode look-alikes and characters whose case mapping yields hexadecimal digits (see `confusables`)
        for with_prefix in [true, false] {
            let canon = hex_of(v, &ff_image(v, rng), with_prefix);
            for s in confusables(&canon) {
                emit_parse(out, v, "with", "None", &s);
                emit_parse(out, v, "fromstr", "None", &s);
            }
        }
        // (c) two simultaneous faults; (d) near-miss prefixes
        for _ in 0..(if thorough { 60 } else { 12 }) {
            let img = image(v, rng);
            let mut s = hex_of(v, &img, true);
            match rng.below(6) {
                0 => {
                    s[0] = b't';
                }
                1 => {
                    s[1] = b'2';
                }
                2 => {
                    s[0] = b'T';
                    s[1] = *rng.pick(b"023456789");
                }
                3 => {
                    s[0] = b'X';
                    let i = rng.range(2, s.len() as u64 - 1) as usize;
                    s[i] = b'G';
                }
                4 => {
                    s.push(b'0');
                    s[0] = b'X';
                }
                _ => {
                    let i = rng.range(2, s.len() as u64 - 1) as usize;
                    let j = rng.range(2, s.len() as u64 - 1) as usize;
                    s[i] = b'g';
                    s[j] = 0xff;
                }
            }
            for mode in MODES {
                emit_parse(out, v, "bytes", mode, &s);
            }
            // both digits of one (aligned) byte invalid
            let mut s = hex_of(v, &img, true);
            let k = rng.below(((s.len() - 2) / 2) as u64) as usize;
            s[2 + 2 * k] = *rng.pick(b"zG@`:/");
            s[3 + 2 * k] = *rng.pick(b"zG@`:/");
            for mode in MODES {
                emit_parse(out, v, "bytes", mode, &s);
            }
        }
    });
    stage_matrices(out);
}

/// the digit-pair decoders and the encoders of this build, exhaustively
pub fn stage_matrices(out: &mut Out) {
    use tlsh::verif::hex_str;
    let mut m: Vec<i64> = Vec::with_capacity(65536);
    let o = obs(|| {
        for c1 in 0..256usize {
            for c2 in 0..256usize {
                m.push(hex_str::decode_rev_1(&[c1 as u8, c2 as u8]).map(|x| x as i64).unwrap_or(-1));
            }
        }
    });
    let j = format!("[{}]", m.iter().map(|x| x.to_string()).collect::<Vec<_>>().join(","));
    out.emit(Ev::new("decode_matrix").boolean("rev", true).raw("m", &j).meas(0, &o.p));
    #[cfg(not(feature = "hexsimd-parse"))]
    {
        let mut m: Vec<i64> = Vec::with_capacity(65536);
        let o = obs(|| {
            for c1 in 0..256usize {
                for c2 in 0..256usize {
                    m.push(hex_str::decode_1(&[c1 as u8, c2 as u8]).map(|x| x as i64).unwrap_or(-1));
                }
            }
        });
        let j = format!("[{}]", m.iter().map(|x| x.to_string()).collect::<Vec<_>>().join(","));
        out.emit(Ev::new("decode_matrix").boolean("rev", false).raw("m", &j).meas(0, &o.p));
    }
    let mut t = String::from("[");
    let o = obs(|| {
        for x in 0..256usize {
            let mut d = [0u8; 2];
            hex_str::encode_rev_1(&mut d, x as u8);
            if x > 0 {
                t.push(',');
            }
            t.push_str(&bytes_json(&d));
        }
    });
    t.push(']');
    out.emit(Ev::new("encode_table").boolean("rev", true).raw("m", &t).meas(0, &o.p));
    #[cfg(not(feature = "hexsimd-convert"))]
    {
        let mut t = String::from("[");
        let o = obs(|| {
            for x in 0..256usize {
                let mut d = [0u8; 2];
                hex_str::encode_array(&mut d, &[x as u8]);
                if x > 0 {
                    t.push(',');
                }
                t.push_str(&bytes_json(&d));
            }
        });
        t.push(']');
        out.emit(Ev::new("encode_table").boolean("rev", false).raw("m", &t).meas(0, &o.p));
    }
}

fn emit_frombytes(out: &mut Out, v: &dyn Var, b: &[u8], via: &str) {
    let r = if via == "array" { v.from_array(b) } else { v.from_slice(b) };
    let res = r.v.clone().unwrap_or(Err("PANIC".into()));
    let back = match &res {
        Ok(img) => v.hash(img).map(|h| {
            let mut buf = vec![0u8; v.size()];
            let _ = h.store_bytes(&mut buf);
            buf
        }),
        Err(_) => None,
    };
    out.emit(
        Ev::new("frombytes")
            .str("v", v.name())
            .str("via", via)
            .bytes("b", b)
            .raw("r", &res_json(&res))
            .bytes("back", &back.unwrap_or_default())
            .meas(r.a, &r.p),
    );
}

pub fn run_c06(out: &mut Out, rng: &mut Rng, thorough: bool, only: Option<&str>) {
    each_variant(only, |v| {
        let n = v.size();
        for len in 0..=(n + 8) {
            let reps = if len == n { if thorough { 60 } else { 10 } } else { 1 };
            for _ in 0..reps {
                let b = rng.bytes(len);
                emit_frombytes(out, v, &b, "slice");
                if len == n {
                    emit_frombytes(out, v, &b, "array");
                }
            }
        }
        for b in [vec![0u8; n], vec![0xffu8; n]] {
            emit_frombytes(out, v, &b, "slice");
            emit_frombytes(out, v, &b, "array");
        }
        // cross-format confusion: the TEXT forms handed to the binary parser (they have other lengths: rejected)
        {
            let img = image(v, rng);
            for t in [hex_of(v, &img, true), hex_of(v, &img, false), recase(&hex_of(v, &img, true), rng, 1), recase(&hex_of(v, &img, false), rng, 1)] {
                emit_frombytes(out, v, &t, "slice");
                emit_frombytes(out, v, &t[..n.min(t.len())], "slice");
            }
        }
        // header fields swept (these are the fields the strict parser looks at)
        let base = image(v, rng);
        for pos in [0usize, v.ck_len(), v.ck_len() + 1] {
            for x in 0..256usize {
                if !thorough && x % 5 != 0 && !(44..=52).contains(&x) && !(166..=174).contains(&x) {
                    continue;
                }
                let mut b = base.clone();
                b[pos] = x as u8;
                emit_frombytes(out, v, &b, "array");
            }
        }
        for img in special_images(v, rng) {
            emit_fmt(out, v, &img);
        }
        for _ in 0..(if thorough { 40 } else { 6 }) {
            emit_fmt(out, v, &image(v, rng));
        }
        // equality: two values that differ in exactly one byte, for EVERY byte position, are different
        // (== and != in both orders); a value equals its copy and itself
        let a = image(v, rng);
        for p in 0..n {
            let mut b = a.clone();
            b[p] ^= 1 << rng.below(8);
            if STRICT && v.hash(&b).is_none() {
                b = a.clone();
            }
            let (ha, hb) = match (v.hash(&a), v.hash(&b)) {
                (Some(x), Some(y)) => (x, y),
                _ => continue,
            };
            let m = obs(|| (ha.eq_(hb.as_ref()), hb.eq_(ha.as_ref()), ha.clone_box().eq_(ha.as_ref()), ha.eq_(ha.as_ref())));
            let (e1, e2, e3, e4) = m.v.unwrap_or((false, true, false, false));
            out.emit(
                Ev::new("eq").str("v", v.name()).bytes("a1", &a).bytes("b1", &b).boolean("eq", e1).boolean("eq_rev", e2)
                    .boolean("clone_eq", e3).boolean("self_eq", e4).meas(0, &m.p),
            );
        }
    });
}

pub fn run_c14(out: &mut Out, rng: &mut Rng, thorough: bool, only: Option<&str>) {
    each_variant(only, |v| {
        // one random value at every destination length; the special values (uniform, runs of seven equal
        // bytes and a different one, sparse headers ...) at the lengths where something is written
        let mut values = vec![image(v, rng)];
        values.extend(special_images(v, rng));
        for (vi, img) in values.into_iter().enumerate() {
        let h = match v.hash(&img) {
            Some(h) => h,
            None => continue,
        };
        for (form, n) in [("bytes", v.size()), ("hex", v.len_str() - 2), ("hexp", v.len_str())] {
            let mut lens: Vec<usize> = if vi == 0 { (0..=(n + 64)).collect() } else { vec![n, n + 1, n + 7] };
            if vi > 0 && form == "hex" && !thorough {
                continue;
            }
            // far larger destinations (arena-style callers): around 2^8, 2^16 and 2^20
            if vi == 0 {
                lens.extend([255usize, 256, 257, 65_535, 65_536, 65_537, (1 << 20) + 1]);
            }
            for l in lens {
                if !thorough && l + 6 < n && l % 4 != 0 {
                    continue;
                }
                if l > 70_000 && !(v.name() == "Normal" || thorough) {
                    continue;
                }
                let mut pre = rng.bytes(l);
                // meaningful prior content: the SAME value already there in lower case / with another prefix
                // style / one digit off, or another value's text (a store is a write, whatever was there)
                if vi == 0 && l >= n && l <= n + 8 && form != "bytes" {
                    let same = hex_of(v, &img, form == "hexp");
                    let prior: Vec<u8> = match (l - n) % 4 {
                        0 => same.to_ascii_lowercase().iter().map(|&c| if c == b't' { b'T' } else { c }).collect(),
                        1 => recase(&same, rng, 2),
                        2 => hex_of(v, &image(v, rng), form == "hexp"),
                        _ => {
                            let mut t = same.to_ascii_lowercase();
                            t[0] = if form == "hexp" { b'T' } else { t[0] };
                            let k = t.len() - 1;
                            t[k] = if t[k] == b'0' { b'1' } else { b'0' };
                            t
                        }
                    };
                    let m = prior.len().min(l);
                    pre[..m].copy_from_slice(&prior[..m]);
                }
                // the destination starts at a varying offset of its backing storage (alignment 1..8)
                let shift = l % 8;
                let mut backing = vec![0u8; l + 8];
                backing[shift..shift + l].copy_from_slice(&pre);
                let r = {
                    let dst = &mut backing[shift..shift + l];
                    match form {
                        "bytes" => h.store_bytes(dst),
                        "hex" => h.store_str(dst, false),
                        _ => h.store_str(dst, true),
                    }
                };
                let buf = backing[shift..shift + l].to_vec();
                let outside_ok = backing[..shift].iter().all(|&b| b == 0) && backing[shift + l..].iter().all(|&b| b == 0);
                let rj = match r.v.clone().unwrap_or(Err("PANIC".into())) {
                    Ok(k) => format!("{{\"ok\":true,\"n\":{},\"err\":\"\"}}", k),
                    Err(e) => format!("{{\"ok\":false,\"n\":0,\"err\":\"{}\"}}", e),
                };
                out.emit(
                    Ev::new("store")
                        .str("v", v.name())
                        .bytes("h", &img)
                        .str("form", form)
                        .num("L", l as i64)
                        .bytes("pre", &pre)
                        .raw("r", &rj)
                        .bytes("post", &buf)
                        .boolean("outside_ok", outside_ok)
                        .num("shift", shift as i64)
                        .meas(r.a, &r.p),
                );
            }
        }
        }
    });
}

/// C15: the fields the strict parser inspects, swept through text and bytes.
pub fn run_c15(out: &mut Out, rng: &mut Rng, thorough: bool, only: Option<&str>) {
    each_variant(only, |v| {
        let n = v.size();
        let c = v.ck_len();
        let base = image(v, rng);
        // bytes
        for pos in [0usize, c] {
            for x in 0..256usize {
                let mut b = base.clone();
                b[pos] = x as u8;
                emit_frombytes(out, v, &b, "array");
                if x % 16 == 0 {
                    emit_frombytes(out, v, &b, "slice");
                }
            }
        }
        // both invalid at once, and invalid fields combined with lenient faults
        for _ in 0..(if thorough { 200 } else { 40 }) {
            let mut b = rng.bytes(n);
            if rng.chance(1, 2) {
                b[0] = rng.range(40, 60) as u8;
            }
            if rng.chance(1, 2) {
                b[c] = rng.range(160, 180) as u8;
            }
            emit_frombytes(out, v, &b, "slice");
        }
        // text: the checksum and length digits swept (4 positions x 256 values)
        let canon = hex_text_unchecked(v, &base, true);
        for mode in ["None", "WithVersion"] {
            for pos in [2usize, 3, 2 + 2 * c, 3 + 2 * c] {
                emit_parse_sweep(out, v, mode, &canon, pos);
            }
        }
        let canon_np = hex_text_unchecked(v, &base, false);
        for pos in [0usize, 1, 2 * c, 1 + 2 * c] {
            emit_parse_sweep(out, v, "Empty", &canon_np, pos);
        }
        // random header fields in text form, with and without lenient faults
        for _ in 0..(if thorough { 300 } else { 60 }) {
            let mut b = rng.bytes(n);
            if rng.chance(1, 2) {
                b[0] = rng.range(40, 60) as u8;
            }
            if rng.chance(1, 2) {
                b[c] = rng.range(160, 180) as u8;
            }
            let mut s = hex_text_unchecked(v, &b, true);
            match rng.below(5) {
                0 => {
                    let i = rng.range(2, s.len() as u64 - 1) as usize;
                    s[i] = b'x';
                }
                1 => {
                    s[0] = b't';
                }
                2 => {
                    s.pop();
                }
                _ => {}
            }
            emit_parse(out, v, "bytes", "None", &s);
            emit_parse(out, v, "fromstr", "None", &s);
        }
    });
}

/// hex text of an arbitrary byte image, computed by the harness itself (the
/// strict build cannot construct invalid hashes to format them)
pub fn hex_text_unchecked(v: &dyn Var, img: &[u8], with_prefix: bool) -> Vec<u8> {
    const D: &[u8; 16] = b"0123456789ABCDEF";
    let mut s = Vec::new();
    if with_prefix {
        s.extend_from_slice(b"T1");
    }
    for (i, &b) in img.iter().enumerate() {
        if i < v.ck_len() + 2 {
            s.push(D[(b & 15) as usize]);
            s.push(D[(b >> 4) as usize]);
        } else {
            s.push(D[(b >> 4) as usize]);
            s.push(D[(b & 15) as usize]);
        }
    }
    s
}

#[cfg(feature = "easy")]
pub fn run_c13(out: &mut Out, rng: &mut Rng, thorough: bool, only: Option<&str>) {
    each_variant(only, |v| {
        let mk = |rng: &mut Rng, class: u64| -> Vec<u8> {
            let img = image(v, rng);
            match class {
                0 => hex_of(v, &img, true),
                1 => recase(&hex_of(v, &img, true), rng, 1),
                2 => recase(&hex_of(v, &img, false), rng, 2),
                3 => hex_of(v, &img, false),
                4 => {
                    let mut s = hex_of(v, &img, true);
                    s.pop();
                    s
                }
                5 => {
                    let mut s = hex_of(v, &img, true);
                    s[1] = b'2';
                    s
                }
                6 => {
                    let mut s = hex_of(v, &img, true);
                    let i = rng.range(2, s.len() as u64 - 1) as usize;
                    s[i] = b'G';
                    s
                }
                7 => {
                    let mut b = rng.bytes(v.size());
                    b[v.ck_len()] = rng.range(170, 255) as u8;
                    hex_text_unchecked(v, &b, true)
                }
                8 => {
                    let mut b = rng.bytes(v.size());
                    b[0] = rng.range(49, 255) as u8;
                    hex_text_unchecked(v, &b, rng.chance(1, 2))
                }
                _ => Vec::new(),
            }
        };
        let reps = if thorough { 6 } else { 1 };
        for _ in 0..reps {
            for cl in 0..10u64 {
                for cr in 0..10u64 {
                    let l = mk(rng, cl);
                    let r = if cl == cr && rng.chance(1, 2) { l.clone() } else { mk(rng, cr) };
                    emit_cmpstr(out, v, &l, &r, v.name() == "Normal" && (cl + cr) % 2 == 0);
                }
            }
        }
        // pairs DERIVED from one another (same digits): case, prefix, doubled prefix, one digit off,
        // one digit more / less, non-ASCII of the same byte length
        for _ in 0..(if thorough { 6 } else { 1 }) {
            let img = image(v, rng);
            let canon = hex_of(v, &img, true);
            let mut forms: Vec<Vec<u8>> = vec![
                canon.clone(),
                recase(&canon, rng, 1),
                hex_of(v, &img, false),
                [&b"T1"[..], &canon[..]].concat(),
                [&b"T1T1"[..], &canon[..]].concat(),
                [&canon[..], &b"0"[..]].concat(),
                canon[..canon.len() - 1].to_vec(),
            ];
            let mut off = canon.clone();
            let i = rng.range(2, off.len() as u64 - 1) as usize;
            off[i] = if off[i] == b'0' { b'1' } else { b'0' };
            forms.push(off);
            forms.extend(non_ascii_same_length(&canon).into_iter().take(3));
            for l in &forms {
                for r in &forms {
                    emit_cmpstr(out, v, l, r, v.name() == "Normal" && rng.chance(1, 3));
                }
            }
        }
        // the special values (all-zero / sparse / coinciding header fields, uniform ...) against a random value
        if !STRICT {
            let other = hex_of(v, &image(v, rng), true);
            for sp in special_images(v, rng) {
                let t = hex_text_unchecked(v, &sp, rng.chance(1, 2));
                emit_cmpstr(out, v, &t, &other, false);
                emit_cmpstr(out, v, &other, &t, false);
            }
        }
        // Unicode look-alikes / case-mapping specials on the right, on the left and on both sides
        {
            let canon = hex_of(v, &ff_image(v, rng), true);
            for w in confusables(&canon) {
                emit_cmpstr(out, v, &canon, &w, false);
                emit_cmpstr(out, v, &w, &canon, false);
                emit_cmpstr(out, v, &w, &w, false);
            }
            let plain = hex_of(v, &ff_image(v, rng), false);
            for w in confusables(&plain).into_iter().take(if thorough { 100 } else { 8 }) {
                emit_cmpstr(out, v, &canon, &w, v.name() == "Normal");
            }
        }
        // a valid text wrapped in strippable junk, on either side and on both
        {
            let img = image(v, rng);
            let canon = hex_of(v, &img, true);
            let other = hex_of(v, &image(v, rng), false);
            for w in wrapped_forms(&canon).into_iter().chain(wrapped_forms(&other).into_iter().take(if thorough { 100 } else { 12 })) {
                emit_cmpstr(out, v, &w, &canon, false);
                emit_cmpstr(out, v, &canon, &w, v.name() == "Normal");
                emit_cmpstr(out, v, &w, &w, false);
            }
        }
        // the pair that attains max_distance, as strings (both orders, both prefix styles)
        {
            let wa = vec![0u8; v.size()];
            let mut wb = vec![0xffu8; v.size()];
            for i in 0..v.ck_len() {
                wb[i] = 1;
            }
            wb[v.ck_len()] = 128;
            wb[v.ck_len() + 1] = 0x88;
            for p in [true, false] {
                let (sa, sb) = (hex_text_unchecked(v, &wa, p), hex_text_unchecked(v, &wb, !p));
                emit_cmpstr(out, v, &sa, &sb, false);
                emit_cmpstr(out, v, &sb, &sa, v.name() == "Normal");
            }
            for _ in 0..4 {
                // far-apart random pairs: complement of every byte
                let a = image(v, rng);
                let b: Vec<u8> = a.iter().map(|x| !x).collect();
                emit_cmpstr(out, v, &hex_text_unchecked(v, &a, true), &hex_text_unchecked(v, &b, true), false);
            }
        }
        // aliasing: the two operands are views of ONE buffer (same start address, different lengths;
        // overlapping; identical)
        {
            let img = image(v, rng);
            let canon = String::from_utf8(hex_of(v, &img, true)).unwrap();
            let line = format!("{}{}", canon, &canon[2..]);
            let n = canon.len();
            for (l, r) in [
                (&line[..n], &line[..]),
                (&line[..n], &line[..n - 1]),
                (&line[..n], &line[..n]),
                (&line[..], &line[..n]),
                (&line[2..n], &line[..n]),
                (&line[..n], &line[2..n]),
                (&line[..n - 2], &line[..n]),
            ] {
                emit_cmpstr_str(out, v, l, r);
            }
        }
        if v.name() == "Normal" {
            for cl in 0..10u64 {
                let l = mk(rng, cl);
                let r = mk(rng, (cl * 3 + 1) % 10);
                emit_cmpstr(out, v, &l, &r, true);
            }
        }
    });
}

#[cfg(feature = "easy")]
fn emit_cmpstr(out: &mut Out, v: &dyn Var, l: &[u8], r: &[u8], plain: bool) {
    let (ls, rs) = (std::str::from_utf8(l).unwrap(), std::str::from_utf8(r).unwrap());
    emit_cmpstr_views(out, v, ls, rs, plain)
}

/// the operands are passed exactly as given (possibly views of one buffer)
#[cfg(feature = "easy")]
fn emit_cmpstr_str(out: &mut Out, v: &dyn Var, ls: &str, rs: &str) {
    emit_cmpstr_views(out, v, ls, rs, false)
}

#[cfg(feature = "easy")]
fn emit_cmpstr_views(out: &mut Out, v: &dyn Var, ls: &str, rs: &str, plain: bool) {
    let (l, r) = (ls.as_bytes(), rs.as_bytes());
    let o = if plain {
        // tlsh::compare (the Normal variant only)
        obs(|| tlsh::compare(ls, rs)).map(|r| r.map_err(|e| (format!("{:?}", e.side()), format!("{:?}", e.inner_err()))))
    } else {
        v.compare_with(ls, rs)
    };
    let pl = v.parse_fromstr(ls).v.unwrap_or(Err("PANIC".into()));
    let pr = v.parse_fromstr(rs).v.unwrap_or(Err("PANIC".into()));
    let dd = match (&pl, &pr) {
        (Ok(a), Ok(b)) => {
            let (ha, hb) = (v.hash(a).unwrap(), v.hash(b).unwrap());
            ha.compare_default(hb.as_ref()).v.map(|x| x as i64).unwrap_or(-1)
        }
        _ => -1,
    };
    let res = match o.v.clone() {
        Some(Ok(d)) => format!("{{\"ok\":true,\"d\":{},\"side\":\"\",\"err\":\"\"}}", d),
        Some(Err((s, e))) => format!("{{\"ok\":false,\"d\":-1,\"side\":\"{}\",\"err\":\"{}\"}}", s, e),
        None => "{\"ok\":false,\"d\":-1,\"side\":\"\",\"err\":\"PANIC\"}".to_string(),
    };
    out.emit(
        Ev::new("cmpstr")
            .str("v", v.name())
            .boolean("plain", plain)
            .bytes("ls", l)
            .bytes("rs", r)
            .raw("res", &res)
            .raw("pl", &res_json(&pl))
            .raw("pr", &res_json(&pr))
            .num("dd", dd)
            .meas(o.a, &o.p),
    );
}
