//! Object-safe access to the five hash variants.  The library's variant trait
//! is sealed and unnameable from outside, so everything generic is stamped
//! out by a macro over the five concrete types.
use crate::alloc::measure;
use std::any::Any;
use std::str::FromStr;
use tlsh::hashes::{Long, LongWithLongChecksum, Normal, NormalWithLongChecksum, Short};
use tlsh::length::DataLengthValidity;
use tlsh::verif::VerifGeneratorState;
use tlsh::{
    ComparisonConfiguration, DataLengthProcessingMode, FuzzyHashType, GeneratorOptions,
    GeneratorType, HexStringPrefix, TlshGeneratorFor,
};

/// Observation of one measured library call.
pub struct Obs<R> {
    pub v: Option<R>,
    pub a: u64,
    pub p: String,
}

pub fn obs<R>(f: impl FnOnce() -> R) -> Obs<R> {
    let m = measure(f);
    match m.value {
        Ok(v) => Obs { v: Some(v), a: m.allocs, p: String::new() },
        Err(p) => Obs { v: None, a: m.allocs, p: if p.is_empty() { "panic".into() } else { p } },
    }
}

impl<R> Obs<R> {
    pub fn map<S>(self, f: impl FnOnce(R) -> S) -> Obs<S> {
        Obs { v: self.v.map(f), a: self.a, p: self.p }
    }
}

pub type HRes = Result<Vec<u8>, String>;

pub fn options(o: u8) -> GeneratorOptions {
    let mut g = GeneratorOptions::new();
    g.length_processing_mode(if o & 1 != 0 {
        DataLengthProcessingMode::Conservative
    } else {
        DataLengthProcessingMode::Optimistic
    })
    .pure_integer_qratio_computation(o & 2 == 0)
    .allow_small_size_files(o & 4 != 0)
    .allow_statistically_weak_buckets_half(o & 8 != 0)
    .allow_statistically_weak_buckets_quarter(o & 16 != 0);
    g
}

pub fn prefix_mode(m: &str) -> Option<HexStringPrefix> {
    match m {
        "None" => None,
        "Empty" => Some(HexStringPrefix::Empty),
        "WithVersion" => Some(HexStringPrefix::WithVersion),
        _ => panic!("bad mode"),
    }
}

pub trait GenObj {
    fn update(&mut self, data: &[u8]) -> Obs<()>;
    fn processed_len(&self) -> Obs<Option<u32>>;
    fn fin(&self, o: u8) -> Obs<HRes>;
    fn fin_default(&self) -> Obs<HRes>;
    /// finalize with an options OBJECT (however it was built)
    fn fin_with(&self, opt: &GeneratorOptions) -> Obs<HRes>;
    fn export(&self) -> VerifGeneratorState;
    fn import(&mut self, st: &VerifGeneratorState);
    fn clone_box(&self) -> Obs<Box<dyn GenObj>>;
    fn as_any_gen(&self) -> &dyn Any;
    /// `Clone::clone_from`: overwrite this (existing) generator with a copy of `src` (same variant)
    fn clone_from_obj(&mut self, src: &dyn GenObj) -> Obs<()>;
}

pub struct Accessors {
    pub ck: Vec<u8>,
    pub lv: u8,
    pub lv_valid: bool,
    pub ck_valid: bool,
    pub q: u8,
    pub q1: u8,
    pub q2: u8,
    pub body: Vec<u8>,
}

pub trait HashObj: Any {
    fn as_any(&self) -> &dyn Any;
    /// byte image assembled from the part accessors (not from store_into_bytes)
    fn image(&self) -> Vec<u8>;
    fn accessors(&self) -> Obs<Accessors>;
    fn quartile(&self, i: usize) -> Obs<u8>;
    fn store_bytes(&self, buf: &mut [u8]) -> Obs<Result<usize, String>>;
    fn store_str(&self, buf: &mut [u8], with_prefix: bool) -> Obs<Result<usize, String>>;
    fn display(&self) -> Obs<String>;
    /// Display under format specs with width, fill, alignment and precision
    fn display_spec(&self) -> Obs<Vec<String>>;
    fn to_string_(&self) -> Obs<String>;
    fn cleared(&self) -> Obs<Vec<u8>>;
    fn compare(&self, other: &dyn HashObj, no_length: bool) -> Obs<u32>;
    fn compare_default(&self, other: &dyn HashObj) -> Obs<u32>;
    fn part_distances(&self, other: &dyn HashObj) -> Obs<[u32; 4]>; // body, checksum, qratios, length
    fn eq_(&self, other: &dyn HashObj) -> bool;
    fn clone_box(&self) -> Box<dyn HashObj>;
    #[cfg(feature = "serde")]
    fn ser_json(&self) -> Obs<Result<Vec<u8>, String>>;
    #[cfg(feature = "serde")]
    fn ser_cbor(&self) -> Obs<Result<Vec<u8>, String>>;
    #[cfg(feature = "serde")]
    fn ser_postcard(&self) -> Obs<Result<Vec<u8>, String>>;
    #[cfg(feature = "serde")]
    fn ser_mock(&self, human: bool) -> Obs<Result<crate::fam_serde::SerEvent, String>>;
}

pub trait Var: Sync {
    fn name(&self) -> &'static str;
    fn nb(&self) -> usize;
    fn ck_len(&self) -> usize;
    fn size(&self) -> usize {
        self.ck_len() + 2 + self.nb() / 4
    }
    fn len_str(&self) -> usize {
        self.size() * 2 + 2
    }
    /// [NUMBER_OF_BUCKETS, SIZE_IN_BYTES, LEN_IN_STR_EXCEPT_PREFIX, LEN_IN_STR]
    fn hash_consts(&self) -> [usize; 4];
    /// generator [MIN, MIN_CONSERVATIVE, MAX]
    fn gen_consts(&self) -> [u32; 3];
    fn max_distance(&self, no_length: bool) -> Obs<u32>;
    fn dlv(&self, n: u32) -> (String, bool, bool, bool);
    fn gen_new(&self) -> Obs<Box<dyn GenObj>>;
    fn parse_bytes(&self, s: &[u8], mode: &str) -> Obs<HRes>;
    fn parse_with(&self, s: &str, mode: &str) -> Obs<HRes>;
    fn parse_fromstr(&self, s: &str) -> Obs<HRes>;
    fn from_slice(&self, b: &[u8]) -> Obs<HRes>;
    /// TryFrom<&[u8; N]>; `b` must have exactly SIZE_IN_BYTES bytes.
    fn from_array(&self, b: &[u8]) -> Obs<HRes>;
    /// a hash object with this byte image (None if this build's parser rejects it)
    fn hash(&self, b: &[u8]) -> Option<Box<dyn HashObj>>;
    #[cfg(feature = "easy")]
    fn hash_buf(&self, data: &[u8]) -> Obs<HRes>;
    #[cfg(feature = "easy")]
    fn compare_with(&self, l: &str, r: &str) -> Obs<Result<u32, (String, String)>>;
    #[cfg(all(feature = "easy", feature = "std"))]
    fn hash_stream(&self, r: &mut dyn std::io::Read) -> Obs<Result<Vec<u8>, (String, String)>>;
    #[cfg(all(feature = "easy", feature = "std"))]
    fn hash_file(&self, p: &std::path::Path) -> Obs<Result<Vec<u8>, (String, String)>>;
    #[cfg(feature = "serde")]
    fn de_json(&self, doc: &[u8]) -> Obs<HRes>;
    #[cfg(feature = "serde")]
    fn de_cbor(&self, doc: &[u8]) -> Obs<HRes>;
    #[cfg(feature = "serde")]
    fn de_postcard(&self, doc: &[u8]) -> Obs<HRes>;
    #[cfg(feature = "serde")]
    fn de_mock(&self, human: bool, ev: &crate::fam_serde::DeEvent) -> Obs<(HRes, String)>;
}

pub fn image_of<T: FuzzyHashType>(
    ck: &[u8],
    lv: u8,
    q: u8,
    body: &[u8],
    _h: &T,
) -> Vec<u8> {
    let mut v = Vec::with_capacity(ck.len() + 2 + body.len());
    v.extend_from_slice(ck);
    v.push(lv);
    v.push(q);
    v.extend_from_slice(body);
    v
}

macro_rules! impl_variant {
    ($T:ty, $V:ident, $G:ident, $H:ident, $name:literal, $nb:literal, $ck:literal, $size:literal) => {
        pub struct $V;
        pub struct $G(TlshGeneratorFor<$T>);
        #[derive(Clone)]
        pub struct $H(pub $T);

        impl $H {
            fn img(h: &$T) -> Vec<u8> {
                image_of(h.checksum().data(), h.length().value(), h.qratios().value(), h.body().data(), h)
            }
            fn res(r: Result<$T, impl std::fmt::Debug>) -> HRes {
                r.map(|h| Self::img(&h)).map_err(|e| format!("{:?}", e))
            }
        }

        impl GenObj for $G {
            fn update(&mut self, data: &[u8]) -> Obs<()> {
                obs(|| self.0.update(data))
            }
            fn processed_len(&self) -> Obs<Option<u32>> {
                obs(|| self.0.processed_len())
            }
            fn fin(&self, o: u8) -> Obs<HRes> {
                let opt = options(o);
                obs(|| self.0.finalize_with_options(&opt)).map($H::res)
            }
            fn fin_default(&self) -> Obs<HRes> {
                obs(|| self.0.finalize()).map($H::res)
            }
            fn fin_with(&self, opt: &GeneratorOptions) -> Obs<HRes> {
                obs(|| self.0.finalize_with_options(opt)).map($H::res)
            }
            fn export(&self) -> VerifGeneratorState {
                self.0.verif_export()
            }
            fn import(&mut self, st: &VerifGeneratorState) {
                self.0.verif_import(st)
            }
            fn clone_box(&self) -> Obs<Box<dyn GenObj>> {
                obs(|| self.0.clone()).map(|g| Box::new($G(g)) as Box<dyn GenObj>)
            }
            fn as_any_gen(&self) -> &dyn Any {
                self
            }
            fn clone_from_obj(&mut self, src: &dyn GenObj) -> Obs<()> {
                let s = src.as_any_gen().downcast_ref::<$G>().expect("same variant");
                let dst = &mut self.0;
                obs(move || dst.clone_from(&s.0))
            }
        }

        impl HashObj for $H {
            fn as_any(&self) -> &dyn Any {
                self
            }
            fn image(&self) -> Vec<u8> {
                Self::img(&self.0)
            }
            fn accessors(&self) -> Obs<Accessors> {
                use tlsh::hash::checksum::FuzzyHashChecksum;
                let h = &self.0;
                obs(|| {
                    (
                        *h.checksum().data(),
                        h.length().value(),
                        h.length().is_valid(),
                        h.checksum().is_valid(),
                        h.qratios().value(),
                        h.qratios().q1ratio(),
                        h.qratios().q2ratio(),
                        *h.body().data(),
                    )
                })
                .map(|t| Accessors {
                    ck: t.0.to_vec(),
                    lv: t.1,
                    lv_valid: t.2,
                    ck_valid: t.3,
                    q: t.4,
                    q1: t.5,
                    q2: t.6,
                    body: t.7.to_vec(),
                })
            }
            fn quartile(&self, i: usize) -> Obs<u8> {
                use tlsh::hash::body::FuzzyHashBody;
                obs(|| self.0.body().quartile(i))
            }
            fn store_bytes(&self, buf: &mut [u8]) -> Obs<Result<usize, String>> {
                obs(|| self.0.store_into_bytes(buf)).map(|r| r.map_err(|e| format!("{:?}", e)))
            }
            fn store_str(&self, buf: &mut [u8], with_prefix: bool) -> Obs<Result<usize, String>> {
                let p = if with_prefix { HexStringPrefix::WithVersion } else { HexStringPrefix::Empty };
                obs(|| self.0.store_into_str_bytes(buf, p)).map(|r| r.map_err(|e| format!("{:?}", e)))
            }
            fn display(&self) -> Obs<String> {
                obs(|| format!("{}", self.0))
            }
            fn to_string_(&self) -> Obs<String> {
                obs(|| self.0.to_string())
            }
            fn display_spec(&self) -> Obs<Vec<String>> {
                obs(|| {
                    vec![
                        format!("{:>160}", self.0),
                        format!("{:<150}", self.0),
                        format!("{:*^149}", self.0),
                        format!("{:.8}", self.0),
                        format!("{:10.3}", self.0),
                        format!("{:#}", self.0),
                        format!("{:+}", self.0),
                        format!("{:0200}", self.0),
                        format!("{:#>+90.70}", self.0),
                    ]
                })
            }
            fn cleared(&self) -> Obs<Vec<u8>> {
                let mut c = self.0.clone();
                let o = obs(|| c.clear_checksum());
                Obs { v: o.v.map(|_| Self::img(&c)), a: o.a, p: o.p }
            }
            fn compare(&self, other: &dyn HashObj, no_length: bool) -> Obs<u32> {
                let o = other.as_any().downcast_ref::<$H>().expect("same variant");
                let cfg = if no_length { ComparisonConfiguration::NoLength } else { ComparisonConfiguration::Default };
                obs(|| self.0.compare_with_config(&o.0, cfg))
            }
            fn compare_default(&self, other: &dyn HashObj) -> Obs<u32> {
                let o = other.as_any().downcast_ref::<$H>().expect("same variant");
                obs(|| self.0.compare(&o.0))
            }
            fn part_distances(&self, other: &dyn HashObj) -> Obs<[u32; 4]> {
                use tlsh::hash::body::FuzzyHashBody;
                use tlsh::hash::checksum::FuzzyHashChecksum;
                let o = other.as_any().downcast_ref::<$H>().expect("same variant");
                obs(|| {
                    [
                        self.0.body().compare(o.0.body()),
                        self.0.checksum().compare(o.0.checksum()),
                        self.0.qratios().compare(o.0.qratios()),
                        self.0.length().compare(o.0.length()),
                    ]
                })
            }
            fn eq_(&self, other: &dyn HashObj) -> bool {
                let o = other.as_any().downcast_ref::<$H>().expect("same variant");
                self.0 == o.0
            }
            fn clone_box(&self) -> Box<dyn HashObj> {
                Box::new(self.clone())
            }
            #[cfg(feature = "serde")]
            fn ser_json(&self) -> Obs<Result<Vec<u8>, String>> {
                obs(|| serde_json::to_vec(&self.0)).map(|r| r.map_err(|e| e.to_string()))
            }
            #[cfg(feature = "serde")]
            fn ser_cbor(&self) -> Obs<Result<Vec<u8>, String>> {
                obs(|| {
                    let mut out = Vec::new();
                    ciborium::into_writer(&self.0, &mut out).map(|_| out)
                })
                .map(|r| r.map_err(|e| e.to_string()))
            }
            #[cfg(feature = "serde")]
            fn ser_postcard(&self) -> Obs<Result<Vec<u8>, String>> {
                obs(|| postcard::to_allocvec(&self.0)).map(|r| r.map_err(|e| e.to_string()))
            }
            #[cfg(feature = "serde")]
            fn ser_mock(&self, human: bool) -> Obs<Result<crate::fam_serde::SerEvent, String>> {
                obs(|| crate::fam_serde::mock_serialize(&self.0, human))
            }
        }

        impl Var for $V {
            fn name(&self) -> &'static str {
                $name
            }
            fn nb(&self) -> usize {
                $nb
            }
            fn ck_len(&self) -> usize {
                $ck
            }
            fn hash_consts(&self) -> [usize; 4] {
                [
                    <$T>::NUMBER_OF_BUCKETS,
                    <$T>::SIZE_IN_BYTES,
                    <$T>::LEN_IN_STR_EXCEPT_PREFIX,
                    <$T>::LEN_IN_STR,
                ]
            }
            fn gen_consts(&self) -> [u32; 3] {
                [
                    <TlshGeneratorFor<$T>>::MIN,
                    <TlshGeneratorFor<$T>>::MIN_CONSERVATIVE,
                    <TlshGeneratorFor<$T>>::MAX,
                ]
            }
            fn max_distance(&self, no_length: bool) -> Obs<u32> {
                let cfg = if no_length { ComparisonConfiguration::NoLength } else { ComparisonConfiguration::Default };
                obs(|| <$T>::max_distance(cfg))
            }
            fn dlv(&self, n: u32) -> (String, bool, bool, bool) {
                let v = DataLengthValidity::new::<$nb>(n);
                (
                    format!("{:?}", v),
                    v.is_err(),
                    v.is_err_on(DataLengthProcessingMode::Optimistic),
                    v.is_err_on(DataLengthProcessingMode::Conservative),
                )
            }
            fn gen_new(&self) -> Obs<Box<dyn GenObj>> {
                obs(|| TlshGeneratorFor::<$T>::new()).map(|g| Box::new($G(g)) as Box<dyn GenObj>)
            }
            fn parse_bytes(&self, s: &[u8], mode: &str) -> Obs<HRes> {
                let m = prefix_mode(mode);
                obs(|| <$T>::from_str_bytes(s, m)).map($H::res)
            }
            fn parse_with(&self, s: &str, mode: &str) -> Obs<HRes> {
                let m = prefix_mode(mode);
                obs(|| <$T>::from_str_with(s, m)).map($H::res)
            }
            fn parse_fromstr(&self, s: &str) -> Obs<HRes> {
                obs(|| <$T>::from_str(s)).map($H::res)
            }
            fn from_slice(&self, b: &[u8]) -> Obs<HRes> {
                obs(|| <$T>::try_from(b)).map($H::res)
            }
            fn from_array(&self, b: &[u8]) -> Obs<HRes> {
                let a: &[u8; $size] = b.try_into().expect("exact size");
                obs(|| <$T>::try_from(a)).map($H::res)
            }
            fn hash(&self, b: &[u8]) -> Option<Box<dyn HashObj>> {
                <$T>::try_from(b).ok().map(|h| Box::new($H(h)) as Box<dyn HashObj>)
            }
            #[cfg(feature = "easy")]
            fn hash_buf(&self, data: &[u8]) -> Obs<HRes> {
                obs(|| tlsh::hash_buf_for::<$T>(data)).map($H::res)
            }
            #[cfg(feature = "easy")]
            fn compare_with(&self, l: &str, r: &str) -> Obs<Result<u32, (String, String)>> {
                obs(|| tlsh::compare_with::<$T>(l, r))
                    .map(|r| r.map_err(|e| (format!("{:?}", e.side()), format!("{:?}", e.inner_err()))))
            }
            #[cfg(all(feature = "easy", feature = "std"))]
            fn hash_stream(&self, mut r: &mut dyn std::io::Read) -> Obs<Result<Vec<u8>, (String, String)>> {
                obs(|| tlsh::hash_stream_for::<$T, _>(&mut r)).map(|r| crate::fam_stream::conv(r.map(|h| $H::img(&h))))
            }
            #[cfg(all(feature = "easy", feature = "std"))]
            fn hash_file(&self, p: &std::path::Path) -> Obs<Result<Vec<u8>, (String, String)>> {
                obs(|| tlsh::hash_file_for::<$T, _>(p)).map(|r| crate::fam_stream::conv(r.map(|h| $H::img(&h))))
            }
            #[cfg(feature = "serde")]
            fn de_json(&self, doc: &[u8]) -> Obs<HRes> {
                obs(|| serde_json::from_slice::<$T>(doc)).map(|r| $H::res(r.map_err(|_| "De")))
            }
            #[cfg(feature = "serde")]
            fn de_cbor(&self, doc: &[u8]) -> Obs<HRes> {
                obs(|| ciborium::from_reader::<$T, _>(doc)).map(|r| $H::res(r.map_err(|_| "De")))
            }
            #[cfg(feature = "serde")]
            fn de_postcard(&self, doc: &[u8]) -> Obs<HRes> {
                obs(|| postcard::from_bytes::<$T>(doc)).map(|r| $H::res(r.map_err(|_| "De")))
            }
            #[cfg(feature = "serde")]
            fn de_mock(&self, human: bool, ev: &crate::fam_serde::DeEvent) -> Obs<(HRes, String)> {
                obs(|| crate::fam_serde::mock_deserialize::<$T>(human, ev))
                    .map(|(r, hint)| ($H::res(r.map_err(|_| "De")), hint))
            }
        }
    };
}

impl_variant!(Short, VShort, GShort, HShort, "Short", 48, 1, 15);
impl_variant!(Normal, VNormal, GNormal, HNormal, "Normal", 128, 1, 35);
impl_variant!(NormalWithLongChecksum, VNormalLC, GNormalLC, HNormalLC, "NormalWithLongChecksum", 128, 3, 37);
impl_variant!(Long, VLong, GLong, HLong, "Long", 256, 1, 67);
impl_variant!(LongWithLongChecksum, VLongLC, GLongLC, HLongLC, "LongWithLongChecksum", 256, 3, 69);

pub static VARIANTS: [&dyn Var; 5] = [&VShort, &VNormal, &VNormalLC, &VLong, &VLongLC];

pub fn variant(name: &str) -> &'static dyn Var {
    *VARIANTS.iter().find(|v| v.name() == name).expect("variant name")
}

// Auto traits are part of the public API: every value type can be moved to and shared between threads,
// and none of them is pinned.  A change that loses one of these makes this crate (every configuration
// of the recorder) fail to build, which the checks report as "configuration no longer builds".
#[allow(dead_code)]
fn auto_traits() {
    fn all<T: Send + Sync + Unpin + 'static>() {}
    all::<tlsh::hashes::Short>();
    all::<tlsh::hashes::Normal>();
    all::<tlsh::hashes::NormalWithLongChecksum>();
    all::<tlsh::hashes::Long>();
    all::<tlsh::hashes::LongWithLongChecksum>();
    all::<tlsh::generate::Generator<tlsh::hashes::Short>>();
    all::<tlsh::generate::Generator<tlsh::hashes::Normal>>();
    all::<tlsh::generate::Generator<tlsh::hashes::LongWithLongChecksum>>();
    all::<tlsh::GeneratorOptions>();
    all::<tlsh::GeneratorError>();
    all::<tlsh::ParseError>();
    all::<tlsh::OperationError>();
    all::<tlsh::length::FuzzyHashLengthEncoding>();
    all::<tlsh::length::DataLengthValidity>();
    all::<tlsh::hash::qratios::FuzzyHashQRatios>();
}
