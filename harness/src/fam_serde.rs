//! serde family (C16): real formats (JSON, CBOR, postcard) and a scripted
//! mock serializer / deserializer that answers with arbitrary visitor events.
#![cfg(feature = "serde")]
use crate::fam_codec::{hex_text_unchecked, image};
use crate::json::*;
use crate::rng::Rng;
use crate::variants::*;
use serde::de::{self, Deserializer, MapAccess, SeqAccess, Visitor};
use serde::ser::{self, Impossible, Serializer};
use serde::{Deserialize, Serialize};
use std::fmt;

#[derive(Debug)]
pub struct MockError(pub String);
impl fmt::Display for MockError {
    fn fmt(&self, f: &mut fmt::Formatter) -> fmt::Result {
        f.write_str(&self.0)
    }
}
impl std::error::Error for MockError {}
impl ser::Error for MockError {
    fn custom<T: fmt::Display>(m: T) -> Self {
        MockError(m.to_string())
    }
}
impl de::Error for MockError {
    fn custom<T: fmt::Display>(m: T) -> Self {
        MockError(m.to_string())
    }
}

/// What the hash handed to the serializer.
#[derive(Debug, Clone)]
pub struct SerEvent {
    pub kind: &'static str,
    pub payload: Vec<u8>,
}

struct MockSerializer {
    human: bool,
}

macro_rules! ser_unsupported {
    ($($m:ident($t:ty)),*) => {
        $(fn $m(self, _v: $t) -> Result<SerEvent, MockError> { Err(MockError(concat!("unexpected ", stringify!($m)).into())) })*
    };
}

impl Serializer for MockSerializer {
    type Ok = SerEvent;
    type Error = MockError;
    type SerializeSeq = Impossible<SerEvent, MockError>;
    type SerializeTuple = Impossible<SerEvent, MockError>;
    type SerializeTupleStruct = Impossible<SerEvent, MockError>;
    type SerializeTupleVariant = Impossible<SerEvent, MockError>;
    type SerializeMap = Impossible<SerEvent, MockError>;
    type SerializeStruct = Impossible<SerEvent, MockError>;
    type SerializeStructVariant = Impossible<SerEvent, MockError>;
    fn is_human_readable(&self) -> bool {
        self.human
    }
    fn serialize_str(self, v: &str) -> Result<SerEvent, MockError> {
        Ok(SerEvent { kind: "str", payload: v.as_bytes().to_vec() })
    }
    fn serialize_bytes(self, v: &[u8]) -> Result<SerEvent, MockError> {
        Ok(SerEvent { kind: "bytes", payload: v.to_vec() })
    }
    ser_unsupported!(serialize_bool(bool), serialize_i8(i8), serialize_i16(i16), serialize_i32(i32), serialize_i64(i64),
        serialize_u8(u8), serialize_u16(u16), serialize_u32(u32), serialize_u64(u64), serialize_f32(f32),
        serialize_f64(f64), serialize_char(char));
    fn serialize_none(self) -> Result<SerEvent, MockError> {
        Err(MockError("unexpected none".into()))
    }
    fn serialize_some<T: ?Sized + Serialize>(self, _: &T) -> Result<SerEvent, MockError> {
        Err(MockError("unexpected some".into()))
    }
    fn serialize_unit(self) -> Result<SerEvent, MockError> {
        Err(MockError("unexpected unit".into()))
    }
    fn serialize_unit_struct(self, _: &'static str) -> Result<SerEvent, MockError> {
        Err(MockError("unexpected unit struct".into()))
    }
    fn serialize_unit_variant(self, _: &'static str, _: u32, _: &'static str) -> Result<SerEvent, MockError> {
        Err(MockError("unexpected unit variant".into()))
    }
    fn serialize_newtype_struct<T: ?Sized + Serialize>(self, _: &'static str, _: &T) -> Result<SerEvent, MockError> {
        Err(MockError("unexpected newtype struct".into()))
    }
    fn serialize_newtype_variant<T: ?Sized + Serialize>(
        self, _: &'static str, _: u32, _: &'static str, _: &T,
    ) -> Result<SerEvent, MockError> {
        Err(MockError("unexpected newtype variant".into()))
    }
    fn serialize_seq(self, _: Option<usize>) -> Result<Self::SerializeSeq, MockError> {
        Err(MockError("unexpected seq".into()))
    }
    fn serialize_tuple(self, _: usize) -> Result<Self::SerializeTuple, MockError> {
        Err(MockError("unexpected tuple".into()))
    }
    fn serialize_tuple_struct(self, _: &'static str, _: usize) -> Result<Self::SerializeTupleStruct, MockError> {
        Err(MockError("unexpected tuple struct".into()))
    }
    fn serialize_tuple_variant(
        self, _: &'static str, _: u32, _: &'static str, _: usize,
    ) -> Result<Self::SerializeTupleVariant, MockError> {
        Err(MockError("unexpected tuple variant".into()))
    }
    fn serialize_map(self, _: Option<usize>) -> Result<Self::SerializeMap, MockError> {
        Err(MockError("unexpected map".into()))
    }
    fn serialize_struct(self, _: &'static str, _: usize) -> Result<Self::SerializeStruct, MockError> {
        Err(MockError("unexpected struct".into()))
    }
    fn serialize_struct_variant(
        self, _: &'static str, _: u32, _: &'static str, _: usize,
    ) -> Result<Self::SerializeStructVariant, MockError> {
        Err(MockError("unexpected struct variant".into()))
    }
}

pub fn mock_serialize<T: Serialize>(h: &T, human: bool) -> Result<SerEvent, String> {
    h.serialize(MockSerializer { human }).map_err(|e| e.0)
}

/// One scripted answer of the mock format.
#[derive(Debug, Clone)]
pub struct DeEvent {
    pub ev: &'static str,
    pub payload: Vec<u8>,
}

pub const DE_EVENTS: &[&str] = &[
    "str", "borrowed_str", "string", "bytes", "borrowed_bytes", "byte_buf", "u8", "u16", "u32", "u64", "i64", "f64",
    "bool", "char", "unit", "none", "some", "seq", "map", "newtype",
    // the payload as a SEQUENCE of u8 elements: with an exact size hint, without one, with one that is too low
    "seq_u8", "seq_u8_nohint", "seq_u8_lowhint",
];

struct MockDeserializer<'a> {
    human: bool,
    ev: &'a DeEvent,
    hint: &'a std::cell::RefCell<String>,
    depth: u32,
}

struct U8Seq<'a> {
    data: &'a [u8],
    pos: usize,
    hint: Option<usize>,
}
impl<'de, 'a> SeqAccess<'de> for U8Seq<'a> {
    type Error = MockError;
    fn next_element_seed<T: de::DeserializeSeed<'de>>(&mut self, seed: T) -> Result<Option<T::Value>, MockError> {
        if self.pos >= self.data.len() {
            return Ok(None);
        }
        let b = self.data[self.pos];
        self.pos += 1;
        seed.deserialize(de::value::U8Deserializer::<MockError>::new(b)).map(Some)
    }
    fn size_hint(&self) -> Option<usize> {
        self.hint.map(|h| h.saturating_sub(self.pos.min(h)))
    }
}

struct Empty;
impl<'de> SeqAccess<'de> for Empty {
    type Error = MockError;
    fn next_element_seed<T: de::DeserializeSeed<'de>>(&mut self, _: T) -> Result<Option<T::Value>, MockError> {
        Ok(None)
    }
}
impl<'de> MapAccess<'de> for Empty {
    type Error = MockError;
    fn next_key_seed<K: de::DeserializeSeed<'de>>(&mut self, _: K) -> Result<Option<K::Value>, MockError> {
        Ok(None)
    }
    fn next_value_seed<V: de::DeserializeSeed<'de>>(&mut self, _: V) -> Result<V::Value, MockError> {
        Err(MockError("no value".into()))
    }
}

impl<'a> MockDeserializer<'a> {
    fn answer<'de, V: Visitor<'de>>(self, hint: &str, visitor: V) -> Result<V::Value, MockError>
    where
        'a: 'de,
    {
        if self.depth == 0 {
            *self.hint.borrow_mut() = hint.to_string();
        }
        let p: &'a [u8] = &self.ev.payload;
        let as_str = || std::str::from_utf8(p).map_err(|_| MockError("payload is not UTF-8".into()));
        match self.ev.ev {
            "str" => visitor.visit_str(as_str()?),
            "borrowed_str" => visitor.visit_borrowed_str(as_str()?),
            "string" => visitor.visit_string(as_str()?.to_string()),
            "bytes" => visitor.visit_bytes(p),
            "borrowed_bytes" => visitor.visit_borrowed_bytes(p),
            "byte_buf" => visitor.visit_byte_buf(p.to_vec()),
            "u8" => visitor.visit_u8(p.first().copied().unwrap_or(0)),
            "u16" => visitor.visit_u16(p.len() as u16),
            "u32" => visitor.visit_u32(p.len() as u32),
            "u64" => visitor.visit_u64(p.len() as u64),
            "i64" => visitor.visit_i64(-(p.len() as i64)),
            "f64" => visitor.visit_f64(p.len() as f64 + 0.5),
            "bool" => visitor.visit_bool(p.len() % 2 == 0),
            "char" => visitor.visit_char('T'),
            "unit" => visitor.visit_unit(),
            "none" => visitor.visit_none(),
            "seq" => visitor.visit_seq(Empty),
            "seq_u8" => visitor.visit_seq(U8Seq { data: p, pos: 0, hint: Some(p.len()) }),
            "seq_u8_nohint" => visitor.visit_seq(U8Seq { data: p, pos: 0, hint: None }),
            "seq_u8_lowhint" => visitor.visit_seq(U8Seq { data: p, pos: 0, hint: Some(p.len() / 2) }),
            "map" => visitor.visit_map(Empty),
            "some" if self.depth < 2 => {
                visitor.visit_some(MockDeserializer { human: self.human, ev: self.ev, hint: self.hint, depth: self.depth + 1 })
            }
            "newtype" if self.depth < 2 => visitor.visit_newtype_struct(MockDeserializer {
                human: self.human,
                ev: self.ev,
                hint: self.hint,
                depth: self.depth + 1,
            }),
            _ => visitor.visit_unit(),
        }
    }
}

macro_rules! de_hint {
    ($($m:ident => $h:literal),*) => {
        $(fn $m<V: Visitor<'de>>(self, visitor: V) -> Result<V::Value, MockError> { self.answer($h, visitor) })*
    };
}

impl<'de, 'a: 'de> Deserializer<'de> for MockDeserializer<'a> {
    type Error = MockError;
    fn is_human_readable(&self) -> bool {
        self.human
    }
    de_hint!(deserialize_any => "any", deserialize_bool => "bool", deserialize_i8 => "i8", deserialize_i16 => "i16",
        deserialize_i32 => "i32", deserialize_i64 => "i64", deserialize_u8 => "u8", deserialize_u16 => "u16",
        deserialize_u32 => "u32", deserialize_u64 => "u64", deserialize_f32 => "f32", deserialize_f64 => "f64",
        deserialize_char => "char", deserialize_str => "str", deserialize_string => "string",
        deserialize_bytes => "bytes", deserialize_byte_buf => "byte_buf", deserialize_option => "option",
        deserialize_unit => "unit", deserialize_seq => "seq", deserialize_map => "map",
        deserialize_identifier => "identifier", deserialize_ignored_any => "ignored_any");
    fn deserialize_unit_struct<V: Visitor<'de>>(self, _: &'static str, v: V) -> Result<V::Value, MockError> {
        self.answer("unit_struct", v)
    }
    fn deserialize_newtype_struct<V: Visitor<'de>>(self, _: &'static str, v: V) -> Result<V::Value, MockError> {
        self.answer("newtype_struct", v)
    }
    fn deserialize_tuple<V: Visitor<'de>>(self, _: usize, v: V) -> Result<V::Value, MockError> {
        self.answer("tuple", v)
    }
    fn deserialize_tuple_struct<V: Visitor<'de>>(self, _: &'static str, _: usize, v: V) -> Result<V::Value, MockError> {
        self.answer("tuple_struct", v)
    }
    fn deserialize_struct<V: Visitor<'de>>(
        self, _: &'static str, _: &'static [&'static str], v: V,
    ) -> Result<V::Value, MockError> {
        self.answer("struct", v)
    }
    fn deserialize_enum<V: Visitor<'de>>(
        self, _: &'static str, _: &'static [&'static str], v: V,
    ) -> Result<V::Value, MockError> {
        self.answer("enum", v)
    }
}

pub fn mock_deserialize<T: for<'de> Deserialize<'de>>(human: bool, ev: &DeEvent) -> (Result<T, MockError>, String) {
    let hint = std::cell::RefCell::new(String::new());
    let r = T::deserialize(MockDeserializer { human, ev, hint: &hint, depth: 0 });
    (r, hint.into_inner())
}

fn ser_doc_json(o: &Obs<Result<Vec<u8>, String>>) -> String {
    match &o.v {
        Some(Ok(d)) => format!("{{\"ok\":true,\"doc\":{}}}", bytes_json(d)),
        _ => "{\"ok\":false,\"doc\":[]}".to_string(),
    }
}

fn ser_ev_json(o: &Obs<Result<SerEvent, String>>) -> String {
    match &o.v {
        Some(Ok(e)) => format!("{{\"kind\":\"{}\",\"payload\":{}}}", e.kind, bytes_json(&e.payload)),
        _ => "{\"kind\":\"error\",\"payload\":[]}".to_string(),
    }
}

fn first_panic(ps: &[&str]) -> String {
    ps.iter().find(|p| !p.is_empty()).map(|p| p.to_string()).unwrap_or_default()
}

fn emit_de(out: &mut Out, v: &dyn Var, human: bool, ev: &'static str, payload: &[u8]) {
    let e = DeEvent { ev, payload: payload.to_vec() };
    let o = v.de_mock(human, &e);
    let (r, hint) = match o.v {
        Some((r, h)) => (r, h),
        None => (Err("PANIC".to_string()), String::new()),
    };
    out.emit(
        Ev::new("de").str("v", v.name()).boolean("human", human).str("ev", ev).bytes("payload", payload)
            .str("hint", &hint).raw("r", &res_json(&r)).meas(o.a, &o.p),
    );
}

fn emit_de_doc(out: &mut Out, v: &dyn Var, fmt: &str, kind: &str, payload: &[u8], doc: &[u8]) {
    let o = match fmt {
        "json" => v.de_json(doc),
        "cbor" => v.de_cbor(doc),
        _ => v.de_postcard(doc),
    };
    let r = o.v.clone().unwrap_or(Err("PANIC".into()));
    out.emit(
        Ev::new("de_doc").str("v", v.name()).str("fmt", fmt).str("kind", kind).bytes("payload", payload)
            .bytes("doc", doc).raw("r", &res_json(&r)).meas(o.a, &o.p),
    );
}

fn cbor_bytes(b: &[u8]) -> Vec<u8> {
    let mut d = if b.len() < 24 { vec![0x40 + b.len() as u8] } else { vec![0x58, b.len() as u8] };
    d.extend_from_slice(b);
    d
}
fn cbor_text(s: &[u8]) -> Vec<u8> {
    let mut d = if s.len() < 24 { vec![0x60 + s.len() as u8] } else { vec![0x78, s.len() as u8] };
    d.extend_from_slice(s);
    d
}
fn postcard_bytes(b: &[u8]) -> Vec<u8> {
    let mut d = vec![b.len() as u8];
    d.extend_from_slice(b);
    d
}
fn json_string(s: &[u8]) -> Vec<u8> {
    let mut d = vec![b'"'];
    d.extend_from_slice(s);
    d.push(b'"');
    d
}

pub fn run_c16(out: &mut Out, rng: &mut Rng, thorough: bool, only: Option<&str>) {
    for v in VARIANTS.iter() {
        if only.map_or(false, |o| o != v.name()) {
            continue;
        }
        let v = *v;
        // (a) serialization and the way back, real formats and the recording mock
        // random values, then the special ones (uniform, sparse headers, images that begin like the text form)
        let mut values: Vec<Vec<u8>> = (0..(if thorough { 60 } else { 8 })).map(|_| image(v, rng)).collect();
        values.extend(crate::fam_codec::special_images(v, rng));
        for img in values.iter().cloned() {
            let h = v.hash(&img).unwrap();
            let (j, c, p) = (h.ser_json(), h.ser_cbor(), h.ser_postcard());
            let (mh, mc) = (h.ser_mock(true), h.ser_mock(false));
            let back = |doc: &Obs<Result<Vec<u8>, String>>, f: &str| -> (String, String) {
                match &doc.v {
                    Some(Ok(d)) => {
                        let o = match f {
                            "json" => v.de_json(d),
                            "cbor" => v.de_cbor(d),
                            _ => v.de_postcard(d),
                        };
                        (res_json(&o.v.clone().unwrap_or(Err("PANIC".into()))), o.p)
                    }
                    _ => (res_json(&Err("NOSER".into())), String::new()),
                }
            };
            let (bj, pj) = back(&j, "json");
            let (bc, pc) = back(&c, "cbor");
            let (bp, pp) = back(&p, "postcard");
            let panic = first_panic(&[&j.p, &c.p, &p.p, &mh.p, &mc.p, &pj, &pc, &pp]);
            out.emit(
                Ev::new("ser").str("v", v.name()).bytes("h", &img)
                    .raw("json", &ser_doc_json(&j)).raw("cbor", &ser_doc_json(&c)).raw("postcard", &ser_doc_json(&p))
                    .raw("mock_h", &ser_ev_json(&mh)).raw("mock_c", &ser_ev_json(&mc))
                    .raw("back_json", &bj).raw("back_cbor", &bc).raw("back_postcard", &bp)
                    .meas(0, &panic),
            );
        }
        // (b) the scripted mock: every visitor event x human-readable? x payload corpus
        let n = v.size();
        let mut payloads: Vec<Vec<u8>> = Vec::new();
        let good = image(v, rng);
        payloads.push(good.clone()); // binary form
        for img in values.iter().skip(if thorough { 60 } else { 8 }) {
            payloads.push(img.clone());
        }
        payloads.push(hex_text_unchecked(v, &good, true)); // text forms
        payloads.push(hex_text_unchecked(v, &good, false));
        payloads.push(hex_text_unchecked(v, &good, true).to_ascii_lowercase().iter().map(|&c| if c == b't' { b'T' } else { c }).collect());
        payloads.push(rng.bytes(n - 1));
        payloads.push(rng.bytes(n + 1));
        payloads.push(Vec::new());
        let mut bad = hex_text_unchecked(v, &good, true);
        bad[5] = b'G';
        payloads.push(bad);
        let mut bad = hex_text_unchecked(v, &good, true);
        bad[1] = b'2';
        payloads.push(bad);
        let mut short = hex_text_unchecked(v, &good, true);
        short.pop();
        payloads.push(short);
        // strings of the right BYTE length holding multi-byte characters (at and across offset 2)
        for with_prefix in [true, false] {
            for p in crate::fam_codec::non_ascii_same_length(&hex_text_unchecked(v, &good, with_prefix)) {
                payloads.push(p);
            }
        }
        for p in crate::fam_codec::wrapped_forms(&hex_text_unchecked(v, &good, true)).into_iter().take(if thorough { 100 } else { 18 }) {
            payloads.push(p);
        }
        for p in crate::fam_codec::confusables(&hex_text_unchecked(v, &crate::fam_codec::ff_image(v, rng), true)).into_iter().take(if thorough { 100 } else { 10 }) {
            payloads.push(p);
        }
        // two independent faults: a header the strict parser rejects AND a byte that is not UTF-8 further on
        {
            let mut b = good.clone();
            b[v.ck_len()] = 0xaa;
            let mut t = hex_text_unchecked(v, &b, true);
            let l = t.len();
            t[l - 3] = 0xff;
            payloads.push(t);
            let mut b = good.clone();
            b[0] = 0x31;
            let mut t = hex_text_unchecked(v, &b, false);
            let l = t.len();
            t[l / 2] = 0x80;
            payloads.push(t);
        }
        // forms derived from the canonical text: doubled prefix, one digit more / less
        {
            let canon = hex_text_unchecked(v, &good, true);
            payloads.push([&b"T1"[..], &canon[..]].concat());
            payloads.push([&b"T1T1"[..], &canon[..]].concat());
            payloads.push([&b"T1"[..], &canon[2..canon.len() - 2]].concat());
            payloads.push([&canon[..], &b"0"[..]].concat());
            payloads.push([&b"T1"[..], &hex_text_unchecked(v, &good, false)[2..]].concat());
        }
        // fields the strict parser rejects
        for _ in 0..3 {
            let mut b = rng.bytes(n);
            b[v.ck_len()] = rng.range(170, 255) as u8;
            payloads.push(b.clone());
            payloads.push(hex_text_unchecked(v, &b, true));
            let mut b = rng.bytes(n);
            b[0] = rng.range(49, 255) as u8;
            b[v.ck_len()] %= 170;
            payloads.push(b.clone());
            payloads.push(hex_text_unchecked(v, &b, false));
        }
        for _ in 0..(if thorough { 30 } else { 4 }) {
            payloads.push(rng.bytes(n));
        }
        for human in [true, false] {
            for p in &payloads {
                for ev in DE_EVENTS {
                    if !thorough && !matches!(*ev, "str" | "bytes" | "byte_buf" | "string" | "borrowed_bytes" | "borrowed_str")
                        && rng.chance(2, 3)
                    {
                        continue;
                    }
                    if matches!(*ev, "str" | "borrowed_str" | "string") && std::str::from_utf8(p).is_err() {
                        continue;
                    }
                    emit_de(out, v, human, ev, p);
                }
            }
        }
        // (b') a grid of TWO independent faults in a text of the right length - a header value only the strict
        // parser rejects x a non-hexadecimal byte in every later header character, the first and the last body
        // character - with and without the prefix, through the string-like events only
        for with_prefix in [true, false] {
            for strict_fault in 0..2 {
                let mut b = good.clone();
                if strict_fault == 0 {
                    b[v.ck_len()] = 0xaa + rng.below(80) as u8;
                } else {
                    b[0] = 0x31 + rng.below(200) as u8;
                }
                let clean = hex_text_unchecked(v, &b, with_prefix);
                let off = if with_prefix { 2 } else { 0 };
                let first_after = off + if strict_fault == 0 { 2 * v.ck_len() + 2 } else { 2 };
                let mut at: Vec<usize> = (first_after..(off + 2 * v.ck_len() + 4)).collect();
                at.push(off + 2 * v.ck_len() + 4);
                at.push(clean.len() - 1);
                for &i in &at {
                    for &bad in &[b'G', 0xffu8, b' '] {
                        let mut t = clean.clone();
                        t[i] = bad;
                        for human in [true, false] {
                            for ev in ["str", "bytes", "borrowed_bytes", "string"] {
                                if matches!(ev, "str" | "string") && std::str::from_utf8(&t).is_err() {
                                    continue;
                                }
                                emit_de(out, v, human, ev, &t);
                            }
                        }
                    }
                }
            }
        }
        // (c) documents of real formats
        for p in &payloads {
            if std::str::from_utf8(p).is_ok() && !p.iter().any(|&c| c == b'"' || c == b'\\' || c < 0x20) {
                emit_de_doc(out, v, "json", "str", p, &json_string(p));
                emit_de_doc(out, v, "cbor", "str", p, &cbor_text(p));
            }
            if p.len() < 128 {
                emit_de_doc(out, v, "postcard", "bytes", p, &postcard_bytes(p));
            }
            emit_de_doc(out, v, "cbor", "bytes", p, &cbor_bytes(p));
        }
        // the binary form (and longer / shorter byte strings) written as ARRAYS of integers
        for extra in [0usize, 1, n + 3] {
            let mut b = good.clone();
            b.extend(rng.bytes(extra));
            let items: Vec<u8> = b.iter().flat_map(|&x| if x < 24 { vec![x] } else { vec![0x18, x] }).collect();
            let mut definite = if b.len() < 24 { vec![0x80 + b.len() as u8] } else { vec![0x98, b.len() as u8] };
            definite.extend_from_slice(&items);
            let mut indefinite = vec![0x9f];
            indefinite.extend_from_slice(&items);
            indefinite.push(0xff);
            emit_de_doc(out, v, "cbor", "other", &[], &definite);
            emit_de_doc(out, v, "cbor", "other", &[], &indefinite);
            let js = format!("[{}]", b.iter().map(|x| x.to_string()).collect::<Vec<_>>().join(","));
            emit_de_doc(out, v, "json", "other", &[], js.as_bytes());
            if b.len() < 128 {
                // postcard has no types: a "sequence of u8" is byte-identical to a byte string (length prefix)
            }
        }
        let short: Vec<u8> = good[..n - 1].to_vec();
        let mut d = vec![0x9f];
        d.extend(short.iter().flat_map(|&x| if x < 24 { vec![x] } else { vec![0x18, x] }));
        d.push(0xff);
        emit_de_doc(out, v, "cbor", "other", &[], &d);
        for doc in [&b"12"[..], b"null", b"true", b"[1,2]", b"{\"a\":1}", b"1.5"] {
            emit_de_doc(out, v, "json", "other", &[], doc);
        }
        for doc in [&[0x01u8][..], &[0xf6], &[0x80], &[0xa0], &[0xf5], &[0xfb, 0, 0, 0, 0, 0, 0, 0, 0]] {
            emit_de_doc(out, v, "cbor", "other", &[], doc);
        }
    }
}
