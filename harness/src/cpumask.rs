//! CPU feature masking (C07: every runtime-dispatch arm on one machine).
//!
//! `VREC_CPU_MASK=avx2[,sse4.1,ssse3]` hides those features from CPUID for this process: Linux
//! CPUID faulting (`arch_prctl(ARCH_SET_CPUID, 0)`, inherited by threads created afterwards) makes
//! every `cpuid` instruction raise SIGSEGV; the handler executes the real instruction with faulting
//! switched off for a moment, clears the masked bits and resumes after the instruction.  The
//! library's `is_x86_feature_detected!` then selects the arm a CPU without those features would.
#![cfg(all(target_arch = "x86_64", target_os = "linux"))]
use std::sync::atomic::{AtomicU32, Ordering};

const ARCH_GET_CPUID: libc::c_long = 0x1011;
const ARCH_SET_CPUID: libc::c_long = 0x1012;

static MASK_L1_ECX: AtomicU32 = AtomicU32::new(0);
static MASK_L7_EBX: AtomicU32 = AtomicU32::new(0);

unsafe fn set_cpuid(enabled: libc::c_ulong) -> libc::c_long {
    libc::syscall(libc::SYS_arch_prctl, ARCH_SET_CPUID, enabled)
}

extern "C" fn on_segv(_sig: libc::c_int, _info: *mut libc::siginfo_t, ctx: *mut libc::c_void) {
    unsafe {
        let uc = &mut *(ctx as *mut libc::ucontext_t);
        let g = &mut uc.uc_mcontext.gregs;
        let rip = g[libc::REG_RIP as usize] as *const u8;
        if *rip != 0x0f || *rip.add(1) != 0xa2 {
            // not a cpuid instruction: a genuine fault - die the default way
            libc::signal(libc::SIGSEGV, libc::SIG_DFL);
            return;
        }
        let leaf = g[libc::REG_RAX as usize] as u32;
        let sub = g[libc::REG_RCX as usize] as u32;
        set_cpuid(1);
        let r = core::arch::x86_64::__cpuid_count(leaf, sub);
        set_cpuid(0);
        let (mut ebx, mut ecx) = (r.ebx, r.ecx);
        if leaf == 1 {
            ecx &= !MASK_L1_ECX.load(Ordering::Relaxed);
        }
        if leaf == 7 && sub == 0 {
            ebx &= !MASK_L7_EBX.load(Ordering::Relaxed);
        }
        g[libc::REG_RAX as usize] = r.eax as i64;
        g[libc::REG_RBX as usize] = ebx as i64;
        g[libc::REG_RCX as usize] = ecx as i64;
        g[libc::REG_RDX as usize] = r.edx as i64;
        g[libc::REG_RIP as usize] += 2;
    }
}

/// Returns Err(reason) if masking is unavailable here (the caller skips, it does not fail).
pub fn install(mask: &str) -> Result<(), String> {
    let (mut l1, mut l7) = (0u32, 0u32);
    for f in mask.split(',').filter(|x| !x.is_empty()) {
        match f {
            "avx2" => l7 |= 1 << 5,
            "avx512" => l7 |= (1 << 16) | (1 << 17) | (1 << 30) | (1 << 31) | (1 << 28) | (1 << 21),
            "sse4.1" => l1 |= 1 << 19,
            "sse4.2" => l1 |= 1 << 20,
            "ssse3" => l1 |= 1 << 9,
            "avx" => l1 |= 1 << 28,
            other => return Err(format!("unknown feature {}", other)),
        }
    }
    if l7 & (1 << 5) != 0 {
        l7 |= (1 << 16) | (1 << 17) | (1 << 30) | (1 << 31) | (1 << 28) | (1 << 21); // no AVX2 => no AVX-512
    }
    MASK_L1_ECX.store(l1, Ordering::Relaxed);
    MASK_L7_EBX.store(l7, Ordering::Relaxed);
    unsafe {
        if libc::syscall(libc::SYS_arch_prctl, ARCH_GET_CPUID) < 0 {
            return Err("ARCH_GET_CPUID unsupported".into());
        }
        let mut sa: libc::sigaction = std::mem::zeroed();
        sa.sa_sigaction = on_segv as usize;
        sa.sa_flags = libc::SA_SIGINFO | libc::SA_NODEFER;
        libc::sigemptyset(&mut sa.sa_mask);
        if libc::sigaction(libc::SIGSEGV, &sa, std::ptr::null_mut()) != 0 {
            return Err("sigaction failed".into());
        }
        if set_cpuid(0) != 0 {
            return Err("CPUID faulting unavailable on this CPU / kernel".into());
        }
    }
    // sanity: the mask is effective
    let r = unsafe { core::arch::x86_64::__cpuid_count(7, 0) };
    if l7 & (1 << 5) != 0 && r.ebx & (1 << 5) != 0 {
        return Err("mask not effective".into());
    }
    Ok(())
}
