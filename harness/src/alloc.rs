//! Counting global allocator and the measured, panic-catching call wrapper.
use std::alloc::{GlobalAlloc, Layout, System};
use std::cell::Cell;
use std::panic::{catch_unwind, AssertUnwindSafe};

pub struct Counting;

thread_local! {
    static COUNT: Cell<u64> = const { Cell::new(0) };
}

#[inline]
fn bump() {
    let _ = COUNT.try_with(|c| c.set(c.get() + 1));
}

unsafe impl GlobalAlloc for Counting {
    unsafe fn alloc(&self, l: Layout) -> *mut u8 {
        bump();
        System.alloc(l)
    }
    unsafe fn dealloc(&self, p: *mut u8, l: Layout) {
        System.dealloc(p, l)
    }
    unsafe fn alloc_zeroed(&self, l: Layout) -> *mut u8 {
        bump();
        System.alloc_zeroed(l)
    }
    unsafe fn realloc(&self, p: *mut u8, l: Layout, n: usize) -> *mut u8 {
        bump();
        System.realloc(p, l, n)
    }
}

pub fn count() -> u64 {
    COUNT.with(|c| c.get())
}

/// Outcome of one measured call: the value (or the panic message) and the
/// number of allocator calls made by this thread during the call.
pub struct Measured<R> {
    pub value: Result<R, String>,
    pub allocs: u64,
}

pub fn measure<R>(f: impl FnOnce() -> R) -> Measured<R> {
    let before = count();
    let r = catch_unwind(AssertUnwindSafe(f));
    let after = count();
    Measured {
        value: r.map_err(|e| {
            if let Some(s) = e.downcast_ref::<&str>() {
                (*s).to_string()
            } else if let Some(s) = e.downcast_ref::<String>() {
                s.clone()
            } else {
                "non-string panic payload".to_string()
            }
        }),
        allocs: after - before,
    }
}
