//! Generator family: histories of new / update / clone / finalize-fan /
//! inject events with the concrete state exported after every step.
//! Serves C01 (inputs and injected states), C03 (chunking / clone / finalize
//! histories), C10 (length and bucket-fill thresholds), C11 (near the limits).
use crate::json::*;
use crate::rng::Rng;
use crate::variants::*;
use tlsh::verif::VerifGeneratorState;

pub fn state_json(st: &VerifGeneratorState) -> String {
    format!(
        "{{\"bk\":{},\"len\":{},\"ck\":{},\"tail\":{},\"tailLen\":{}}}",
        wides_json(&st.buckets[..st.num_buckets]),
        wide_json(st.len),
        bytes_json(&st.checksum[..st.checksum_len]),
        bytes_json(&st.tail),
        st.tail_len
    )
}

pub struct Session<'a> {
    pub out: &'a mut Out,
    pub v: &'static dyn Var,
    pub gens: Vec<Option<Box<dyn GenObj>>>,
    pub bytes_fed: u64,
}

impl<'a> Session<'a> {
    pub fn new(out: &'a mut Out, v: &'static dyn Var) -> Session<'a> {
        Session { out, v, gens: (0..4).map(|_| None).collect(), bytes_fed: 0 }
    }
    pub fn g(&self, i: usize) -> &dyn GenObj {
        self.gens[i].as_deref().expect("live generator")
    }
    pub fn new_gen(&mut self, i: usize) {
        let o = self.v.gen_new();
        let p = o.p.clone();
        let a = o.a;
        self.gens[i] = o.v;
        let st = self.gens[i].as_ref().map(|g| state_json(&g.export())).unwrap_or("{}".into());
        self.out.emit(Ev::new("gen_new").num("g", i as i64).str("v", self.v.name()).raw("st", &st).meas(a, &p));
    }
    pub fn inject(&mut self, i: usize, st: &VerifGeneratorState) {
        let mut g = self.v.gen_new().v.expect("new");
        g.import(st);
        let back = g.export();
        self.gens[i] = Some(g);
        self.out.emit(
            Ev::new("gen_inject").num("g", i as i64).str("v", self.v.name()).raw("st", &state_json(&back)).meas(0, ""),
        );
    }
    pub fn update(&mut self, i: usize, data: &[u8]) {
        let o = self.gens[i].as_mut().expect("live").update(data);
        let pl = self.g(i).processed_len();
        let st = state_json(&self.g(i).export());
        self.bytes_fed += data.len() as u64;
        let p = if o.p.is_empty() { pl.p.clone() } else { o.p.clone() };
        self.out.emit(
            Ev::new("gen_update")
                .num("g", i as i64)
                .bytes("data", data)
                .raw("st", &st)
                .raw("plen", &opt_wide_json(pl.v.unwrap_or(None)))
                .meas(o.a + pl.a, &p),
        );
    }
    pub fn clone_gen(&mut self, from: usize, to: usize) {
        let o = self.g(from).clone_box();
        let (a, p) = (o.a, o.p.clone());
        self.gens[to] = o.v;
        let st = self.gens[to].as_ref().map(|g| state_json(&g.export())).unwrap_or("{}".into());
        self.out.emit(Ev::new("gen_clone").num("g", from as i64).num("g2", to as i64).raw("st", &st).meas(a, &p));
    }
    /// `to.clone_from(&from)`: the destination already exists (whatever it has seen so far)
    pub fn clone_from_gen(&mut self, from: usize, to: usize) {
        let mut dst = self.gens[to].take().expect("destination generator exists");
        let o = dst.clone_from_obj(self.g(from));
        let st = state_json(&dst.export());
        self.gens[to] = Some(dst);
        self.out.emit(Ev::new("gen_clone").num("g", from as i64).num("g2", to as i64).boolean("into", true).raw("st", &st).meas(o.a, &o.p));
    }
    /// finalize under all 32 option sets, plus finalize() (default options)
    pub fn fin(&mut self, i: usize) {
        let mut fan = String::from("[");
        let mut rt: Vec<u8> = Vec::new();
        let mut allocs = 0;
        let mut panic = String::new();
        for o in 0..32u8 {
            let r = self.g(i).fin(o);
            allocs += r.a;
            if !r.p.is_empty() && panic.is_empty() {
                panic = r.p.clone();
            }
            if o > 0 {
                fan.push(',');
            }
            let rv = r.v.unwrap_or(Err("PANIC".into()));
            // round trip of a generated hash through this build's parsers (strict in strict builds)
            rt.push(match &rv {
                Ok(img) => match self.v.hash(img) {
                    Some(h) => {
                        let mut buf = vec![0u8; self.v.len_str()];
                        let _ = h.store_str(&mut buf, true);
                        let back = self.v.parse_bytes(&buf, "None").v.unwrap_or(Err("PANIC".into()));
                        if back.as_ref() == Ok(img) { 1 } else { 0 }
                    }
                    None => 0,
                },
                Err(_) => 2,
            });
            fan.push_str(&res_json(&rv));
        }
        fan.push(']');
        let d = self.g(i).fin_default();
        allocs += d.a;
        if !d.p.is_empty() && panic.is_empty() {
            panic = d.p.clone();
        }
        let pl = self.g(i).processed_len();
        let st = state_json(&self.g(i).export());
        self.out.emit(
            Ev::new("gen_fin")
                .num("g", i as i64)
                .raw("fan", &fan)
                .raw("def", &res_json(&d.v.unwrap_or(Err("PANIC".into()))))
                .bytes("rt", &rt)
                .raw("st", &st)
                .raw("plen", &opt_wide_json(pl.v.unwrap_or(None)))
                .meas(allocs + pl.a, &panic),
        );
    }
    pub fn whole(&mut self, data: &[u8]) {
        self.new_gen(0);
        self.update(0, data);
        self.fin(0);
        // the one-call helper on the same bytes (builds with the easy functions only)
        #[cfg(feature = "easy")]
        if data.len() <= 700 {
            let o = self.v.hash_buf(data);
            self.out.emit(
                Ev::new("hash_buf").str("v", self.v.name()).bytes("data", data)
                    .raw("r", &res_json(&o.v.clone().unwrap_or(Err("PANIC".into())))).meas(o.a, &o.p),
            );
        }
    }
}

// ---- inputs -----------------------------------------------------------------

/// Vectors of the repository's tests that sit on the bucket-fill thresholds.
pub const FILL_VECTORS: &[(&str, &[u8])] = &[
    ("Short", b"\x73\x28\x65\xba\xeb\x85\x57\x96\x0c\xea"),
    ("Short", b"\x41\x3d\xad\xa3\x16\x7f\x2d\xde\xad\xec"),
    ("Short", b"\xcb\x10\x6e\xca\x69\x45\xb7\x81\x1b\x57"),
    ("Short", b"\x08\x16\x8c\xb0\x65\xf5\x93\xbb\x88\xaf"),
    ("Short", b"\xb6\xe0\x71\xa6\x20\x1a\x6b\x2b\xe2\x44"),
    ("Short", b"\xd2\x21\x50\x57\xec\x82\x0b\xef\x36\xaa"),
    ("Short", b"\x6e\x24\x6e\xc2\x9b\x62\x19\x04\x13\xa0"),
    ("Short", b"\x1d\x98\x29\x36\x25\xcb\xf5\xe2\x46"),
    ("Normal", b"\xe3\x77\x84\x3a\xb1\x5e\x6b\x02\x50\x18\x4b\x45\x23\x47\xe1\x1a\x90\x05\x3a\x29\x7f\xcd\x05\xe2\xeb\xec\x44\x1f\xb5\xe8\xe5\xb5\x7c\x3f\xff\x7f\x1d\x99\x05\xfb\xc7\xca\xdf\x87\xed\x07\xff\x8b\xdb\xad"),
    ("Normal", b"\x45\x77\x4f\xfa\xe9\xc6\x83\xfe\x36\xee\x63\x0a\x51\xa7\xcb\xa2\x24\x79\x39\xd5\x9a\x7b\x52\x95\xf0\xc5\x29\xf2\x5f\x0b\xd2\x28\xdd\x7e\xfe\xaf\xc0\x50\x86\xf5\xf4\x3d\x4d\x0d\x2f\xc0\xd9\x57\xf5\x2a"),
    ("Normal", b"\xcc\x00\x19\xfe\xa3\x63\x1b\xe7\x6f\xf4\x86\x7d\xfd\x06\xcd\xfc\x2a\x20\x6d\x61\xe7\x88\xa8\x07\x96\x4d\xa0\x19\x01\x0b\xa8\x4a\x2a\xd8\xbc\xad\xbe\xc6\x04\x50\xb8\xbf\x65\xb6\x3f\x7d\xb4\x71\xee\x49"),
    ("Normal", b"\xa1\xdb\xcb\x51\x8c\x2c\x5d\xc9\x6a\x85\x20\xcc\xad\x70\x47\xad\x3c\x18\x16\x7a\xf5\xd5\xcc\xdd\x38\x3b\x24\xb4\x3d\x7f\x1f\xc7\x3a\x8e\xbf\x27\xca\xcc\xb6\xc9\x35\xc0\x58\xdc\x76\xd9\x4e\x31\xea\xb2"),
    ("Long", b"\x30\x76\xaa\x04\x8b\x53\x71\xe3\x9a\x2d\xcb\xb2\xd3\x0f\x9a\x2d\xcb\xb2\xd3\x0f\x9a\x2d\xcb\xb2\xd3\x0f\x9a\x2d\xcb\xb2\xd3\x0f\x9a\x2d\xcb\xb2\xd3\x0f\x9a\x2d\xcb\xb2\xd3\x0f\x9a\x2d\xcb\xb2\xd3\x0f"),
    ("Long", b"\x64\xe5\x33\xaa\x14\x82\x2a\x45\x82\x50\xdc\x32\xd3\xd0\x53\xd6\x7c\x32\xd3\xd0\x53\xd6\x7c\x32\xd3\xd0\x53\xd6\x7c\x32\xd3\xd0\x53\xd6\x7c\x32\xd3\xd0\x53\xd6\x7c\x32\xd3\xd0\x53\xd6\x7c\x32\xd3\xd0"),
    ("Long", b"\xb8\x56\xea\xca\x15\xa2\x57\x23\xd2\x25\xf1\x4c\x58\xd3\xca\x1a\x54\xf6\x09\x07\xb0\x89\xce\xf1\x35\x3d\x25\xe4\xfc\x48\xeb\xa1\xab\x49\xc8\x01\x67\x64\x93\x60\xbb\xf3\x39\x98\xc0\xa9\x3e\x8b\x37\xce"),
    ("Long", b"\x0d\x52\x88\x4e\xfc\x77\x3f\x47\x12\x8e\x36\x30\x6f\x1a\x7d\x0b\x52\x1e\x98\x5c\xc5\xa0\x1f\xb2\xa9\x43\xae\xe6\x4f\x69\x61\x9e\xa3\xab\xdd\x2b\xe6\x60\x61\x5c\x30\x47\xa4\x80\x7a\xde\x60\xb4\x7c\x26"),
    ("Normal", b"\x6c\xbc\x89\xe1\x61\x9e\x8e\xeb\xcc\x8e\xbc\x2a\x17\x0b\xe4\xcc\x25\xca\xf2\xe9\xe8\x6e\xbc\x69\x25\x56\xb5\x5c\xe5\x69\xf8\x48\x62\xf0\x00\x97\xf0\xee\xad\x35\xc3\xed\x41\xf6\x65\x8a\x02\x43\x37"),
    ("Normal", b"\x59\xc7\xb0\xe5\x47\xbe\x4c\x06\xdc\x95\x03\xc5\x16\x47\x2f\x8d\x03\xea\x73\xd1\xc0\xb8\x79\xcd\x09\x87\xb9\x1f\xdf\xf9\x7c\xdb\x38\x76\xd7\xf2\x04\xde\xc2\xcf\x9f\x7f\xab\xf0\xd5\x7a\x11\x56\xf1\x89"),
];

pub fn periodic(pat: &[u8], n: usize) -> Vec<u8> {
    (0..n).map(|i| pat[i % pat.len()]).collect()
}

fn family_matches(vname: &str, fam: &str) -> bool {
    vname.starts_with(fam)
}

/// C01: whole inputs against the reference, all options.
pub fn run_c01(out: &mut Out, rng: &mut Rng, thorough: bool, only: Option<&str>) {
    for v in VARIANTS.iter() {
        if only.map_or(false, |o| o != v.name()) {
            continue;
        }
        let mut s = Session::new(out, *v);
        let mut lens: Vec<usize> = vec![0, 1, 3, 4, 5, 6, 9, 10, 11, 12, 49, 50, 51, 127, 128, 129, 200, 256];
        for _ in 0..(if thorough { 40 } else { 4 }) {
            lens.push(rng.range(257, 700) as usize);
        }
        for _ in 0..(if thorough { 12 } else { 1 }) {
            lens.push(rng.range(2000, if thorough { 8000 } else { 3000 }) as usize);
        }
        for n in lens {
            let d = rng.bytes(n);
            s.whole(&d);
        }
        // structured inputs
        for (pat, n) in [
            (vec![0u8], 60usize),
            (vec![0xffu8], 300),
            (vec![0xa4, 0x0e], 300),
            (vec![1, 2, 3], 300),
            (vec![b'A', b'B', b'C', b'D', b'E'], 50),
            (vec![b'A', b'B', b'C', b'D', b'E'], 300),
            ((b'A'..=b'T').collect::<Vec<u8>>(), 50),
            (rng.bytes(7), 400),
            (rng.bytes(17), 500),
        ] {
            s.whole(&periodic(&pat, n));
        }
        // 0..3 arbitrary bytes followed by a long run of one byte (and a run in the middle)
        for lead in 0..4usize {
            let mut d = rng.bytes(lead);
            let fill = rng.byte();
            let run1 = rng.range(33, 90) as usize;
            d.extend(std::iter::repeat(fill).take(run1));
            s.whole(&d);
            let mid = rng.range(1, 20) as usize;
            d.extend(rng.bytes(mid));
            let run2 = rng.range(33, 70) as usize;
            d.extend(std::iter::repeat(fill ^ 0x5a).take(run2));
            s.whole(&d);
        }
        // low-entropy inputs (few distinct byte values -> equal quartiles, sparse buckets)
        for k in [2u64, 3, 4, 6, 10] {
            let n = rng.range(50, 400) as usize;
            let alpha = rng.bytes(k as usize);
            let d: Vec<u8> = (0..n).map(|_| alpha[rng.below(k) as usize]).collect();
            s.whole(&d);
        }
        // the repository's threshold vectors and one-byte neighbours
        for (fam, d) in FILL_VECTORS {
            if !family_matches(v.name(), fam) {
                continue;
            }
            s.whole(d);
            let mut e = d.to_vec();
            let i = rng.below(e.len() as u64) as usize;
            e[i] ^= 1 << rng.below(8);
            s.whole(&e);
            let mut e = d.to_vec();
            e.push(rng.byte());
            s.whole(&e);
        }
        // injected states: counts that only multi-GiB inputs reach
        let k = if thorough { 192 } else { 48 };
        for j in 0..k {
            let st = craft_state(*v, rng, j);
            s.inject(1, &st);
            s.fin(1);
        }
        // every boundary of the length table: states whose fed length is the last length of a code and the
        // first of the next (the table is the specification's pinned copy, not the library's)
        if thorough || v.name() == "Normal" {
            for (i, top) in pinned_tops().into_iter().enumerate() {
                if top < 8 {
                    continue;
                }
                let mut st = craft_state(*v, rng, 1 + i % 3);
                for fed in [top, top + 1] {
                    st.len = (fed - 4) as u32;
                    st.tail_len = 4;
                    s.inject(1, &st);
                    s.fin(1);
                }
            }
        }
    }
}

/// The 170 top values of the length table, read from the specification's pinned decimal copy.
pub fn pinned_tops() -> Vec<u64> {
    let text = include_str!("../../spec/TablesDecimal.tla");
    let start = text.find("TopDecimal == <<").expect("TopDecimal") + "TopDecimal == <<".len();
    let end = start + text[start..].find(">>").expect("end of table");
    let tops: Vec<u64> = text[start..end].split(',').map(|t| t.trim().parse().expect("number")).collect();
    assert_eq!(tops.len(), 170);
    tops
}

/// A well-formed concrete state with bucket counts in a chosen magnitude class.
pub fn craft_state(v: &dyn Var, rng: &mut Rng, recipe: usize) -> VerifGeneratorState {
    let nb = v.nb();
    let mut bk = [0u32; 256];
    let around = |rng: &mut Rng, c: u64, w: u64| -> u32 {
        let lo = c.saturating_sub(w);
        let hi = (c + w).min(u32::MAX as u64);
        rng.range(lo, hi) as u32
    };
    match recipe % 16 {
        0 => {
            for b in bk.iter_mut().take(nb) {
                *b = rng.below(16) as u32;
            }
        }
        1 => {
            for b in bk.iter_mut().take(nb) {
                *b = around(rng, 1 << 24, 64);
            }
        }
        2 => {
            for b in bk.iter_mut().take(nb) {
                *b = around(rng, 1 << 31, 8);
            }
        }
        3 => {
            for b in bk.iter_mut().take(nb) {
                *b = around(rng, u32::MAX as u64, 40);
            }
        }
        4 => {
            // wrapped: some counters restarted from zero, others just below 2^32
            for b in bk.iter_mut().take(nb) {
                *b = if rng.chance(1, 2) { rng.below(50) as u32 } else { around(rng, u32::MAX as u64, 50) };
            }
        }
        5 => {
            // mixture of magnitudes
            for b in bk.iter_mut().take(nb) {
                let c = *rng.pick(&[0u64, 1, 100, 1 << 16, 1 << 24, 42_949_672, 42_949_673, 1 << 31, (1u64 << 32) - 1]);
                *b = around(rng, c, 3);
            }
        }
        6 | 7 | 8 | 9 => {
            // exact quartiles q1 <= q2 <= q3 chosen near an integer boundary of q*100/q3
            let q3: u64 = match recipe % 4 {
                0 => rng.range(1, 200),
                1 => rng.range(150_000, 20_000_000),
                2 => rng.range(42_000_000, 44_000_000),
                _ => rng.range(1 << 30, (1u64 << 32) - 1),
            };
            let pickq = |rng: &mut Rng| -> u64 {
                let k = rng.range(0, 100);
                let base = (k * q3 + 99) / 100;
                let d = rng.range(0, 2);
                (base + d).saturating_sub(1).min(q3)
            };
            let mut q1 = pickq(rng);
            let mut q2 = pickq(rng);
            if q1 > q2 {
                std::mem::swap(&mut q1, &mut q2);
            }
            let quarter = nb / 4;
            let mut vals: Vec<u32> = Vec::with_capacity(nb);
            for i in 0..nb {
                let x = if i < quarter {
                    if i == quarter - 1 { q1 } else { rng.range(0, q1) }
                } else if i < 2 * quarter {
                    if i == 2 * quarter - 1 { q2 } else { rng.range(q1, q2) }
                } else if i < 3 * quarter {
                    if i == 3 * quarter - 1 { q3 } else { rng.range(q2, q3) }
                } else {
                    { let top = (q3 + rng.range(0, 1000)).min(u32::MAX as u64); rng.range(q3, top) }
                };
                vals.push(x as u32);
            }
            // shuffle
            for i in (1..nb).rev() {
                let j = rng.below(i as u64 + 1) as usize;
                vals.swap(i, j);
            }
            bk[..nb].copy_from_slice(&vals);
        }
        10 => {
            // sparse: exactly k non-zero buckets around the half / quarter thresholds
            let k = *rng.pick(&[0usize, 1, nb / 4 - 1, nb / 4, nb / 4 + 1, nb / 2 - 1, nb / 2, nb / 2 + 1, 17, 18, 19]);
            let k = k.min(nb);
            let mut idx: Vec<usize> = (0..nb).collect();
            for i in (1..nb).rev() {
                let j = rng.below(i as u64 + 1) as usize;
                idx.swap(i, j);
            }
            for &i in idx.iter().take(k) {
                bk[i] = around(rng, *rng.clone().pick(&[1u64, 5, 1 << 20, (1u64 << 32) - 1]), 0).max(1);
            }
        }
        12 => {
            // quartiles straddling an arithmetic threshold: q1 just below T, q2 (and q3) just above
            let t = *rng.pick(&[167_772u64, 1 << 24, 42_949_672, 42_949_673, 1 << 31, 21_474_836]);
            let q1 = t - rng.range(1, 40);
            let q2 = t + rng.range(0, 40);
            let q3 = q2 + rng.range(0, 1 << 20).min(u32::MAX as u64 - q2);
            let quarter = nb / 4;
            let mut vals: Vec<u32> = Vec::with_capacity(nb);
            for i in 0..nb {
                let x = if i < quarter { q1 - (i as u64 % 3) } else if i < 2 * quarter { q2 } else if i < 3 * quarter { q3 } else { q3 + (i as u64 % 5) };
                vals.push(x.min(u32::MAX as u64) as u32);
            }
            vals[quarter - 1] = q1 as u32;
            for i in (1..nb).rev() {
                let j = rng.below(i as u64 + 1) as usize;
                vals.swap(i, j);
            }
            bk[..nb].copy_from_slice(&vals);
        }
        13 => {
            // ties: more than half (or all but a few) of the buckets hold the same count c
            let c = *rng.pick(&[671_089u32, 700_001, 799_999, 1 << 24, 42_949_672, 42_949_673, 0x8000_0000, u32::MAX, 3]);
            let others = rng.below((nb / 4) as u64) as usize;
            for (i, b) in bk.iter_mut().take(nb).enumerate() {
                *b = if i < others { if rng.chance(1, 2) { c.wrapping_sub(1 + rng.below(9) as u32) } else { c.saturating_add(1 + rng.below(9) as u32) } } else { c };
            }
            for i in (1..nb).rev() {
                let j = rng.below(i as u64 + 1) as usize;
                bk.swap(i, j);
            }
        }
        14 => {
            // extremes as quartile values: a quarter-plus-one / half / three quarters / all of the buckets hold
            // EXACTLY u32::MAX (then 2^31, 2^31 - 1, 0 on later rounds), the others anything below
            let e = [u32::MAX, 0x8000_0000, 0x7fff_ffff, 0][(recipe / 15) % 4];
            let many = [nb / 4 + 1, nb / 2, 3 * nb / 4, nb][rng.below(4) as usize];
            for (i, b) in bk.iter_mut().take(nb).enumerate() {
                *b = if i < many { e } else if e == 0 { 1 + rng.below(1000) as u32 } else { rng.range(0, e as u64 - 1) as u32 };
            }
            for i in (1..nb).rev() {
                let j = rng.below(i as u64 + 1) as usize;
                bk.swap(i, j);
            }
        }
        15 => {
            // sparse AND huge: exactly k non-zero buckets around the half / quarter thresholds, all of them at even
            // (odd on later rounds) indices with empty neighbours, holding values with the top bit set
            let k = [nb / 2 - 1, nb / 2, nb / 2 + 1, nb / 4 - 1, nb / 4, nb / 4 + 1][(recipe / 16) % 6];
            let parity = (recipe / 96) % 2;
            let mut slots: Vec<usize> = (0..nb / 2).map(|i| 2 * i + parity).collect();
            for i in (1..slots.len()).rev() {
                let j = rng.below(i as u64 + 1) as usize;
                slots.swap(i, j);
            }
            for &i in slots.iter().take(k.min(nb / 2)) {
                bk[i] = *rng.pick(&[u32::MAX, 0x8000_0001, 0x8000_0000, 0xc000_0000]);
            }
        }
        _ => {
            // all equal
            let c = *rng.pick(&[0u32, 1, 7, 671_089, 1 << 24, 42_949_673, 0x8000_0000, u32::MAX]);
            for b in bk.iter_mut().take(nb) {
                *b = c;
            }
        }
    }
    let mut ck = [0u8; 3];
    for c in ck.iter_mut().take(v.ck_len()) {
        *c = rng.byte();
    }
    if v.nb() == 48 {
        ck[0] %= 49;
    }
    let len = *rng.pick(&[6u32, 46, 124, 1000, 65_536, 16_777_216, 0x7fff_fffc, 0x8000_0000, 4_224_281_212 - 0]);
    VerifGeneratorState {
        buckets: bk,
        num_buckets: nb,
        len,
        checksum: ck,
        checksum_len: v.ck_len(),
        tail: [rng.byte(), rng.byte(), rng.byte(), rng.byte()],
        tail_len: 4,
    }
}

const PIECES: &[usize] = &[0, 1, 2, 3, 4, 5, 7, 8, 9, 16, 33, 64, 100];

/// C03: histories of updates with arbitrary piece sizes, interleaved
/// finalize fans and clones continued separately.
pub fn run_c03(out: &mut Out, rng: &mut Rng, thorough: bool, only: Option<&str>) {
    let histories = if thorough { 60 } else { 8 };
    for v in VARIANTS.iter() {
        if only.map_or(false, |o| o != v.name()) {
            continue;
        }
        let mut s = Session::new(out, *v);
        for h in 0..histories {
            s.new_gen(0);
            let steps = rng.range(6, if thorough { 30 } else { 14 });
            let mut live = vec![0usize];
            let budget = if h % 5 == 0 { 700 } else { 160 };
            let mut fed = 0usize;
            for _ in 0..steps {
                let g = *rng.pick(&live);
                match rng.below(10) {
                    0 | 1 => s.fin(g),
                    2 if live.len() < 3 => {
                        let to = live.len();
                        s.clone_gen(g, to);
                        live.push(to);
                    }
                    2 => {
                        let to = (g + 1 + rng.below(2) as usize) % 3;
                        s.clone_from_gen(g, to);
                    }
                    _ => {
                        let mut n = *rng.pick(PIECES);
                        if h % 7 == 3 {
                            n = rng.range(0, 4) as usize; // only tiny pieces: lives in the tail paths
                        }
                        if fed + n > budget {
                            n = budget.saturating_sub(fed).min(n);
                        }
                        fed += n;
                        let d = if h % 3 == 0 { periodic(&[0xa4, 0x0e], n) } else { rng.bytes(n) };
                        s.update(g, &d);
                    }
                }
            }
            for &g in &live {
                s.fin(g);
            }
        }
        // clone_from into an existing generator that has seen 0..5 bytes (and the other way round), continued
        for dst_fed in 0..=5usize {
            for (src_n, dst_n) in [(20usize, dst_fed), (dst_fed, 20usize)] {
                s.new_gen(0);
                s.update(0, &rng.bytes(src_n));
                s.new_gen(1);
                s.update(1, &rng.bytes(dst_n));
                s.clone_from_gen(0, 1);
                s.update(1, &rng.bytes(9));
                s.fin(1);
                s.update(0, &rng.bytes(2));
                s.fin(0);
            }
        }
        // a few buffered bytes, then ONE piece at the sizes where implementations switch strategy
        // (4 KiB, 64 KiB, 1 MiB, each -1 / +0 / +1), then a few more bytes
        for head in 1..=5usize {
            let sizes: Vec<u64> = if thorough && (v.ck_len() == 1 || head == 2) {
                vec![4095, 4096, 4097, 65_535, 65_536, 65_537, (1 << 20) - 1, 1 << 20, (1 << 20) + 1]
            } else if thorough {
                vec![4095, 4096, 4097, 65_535, 65_536, 65_537]
            } else if head == 3 && v.ck_len() == 1 {
                vec![4096, 65_535 + (head as u64 % 3), 1 << 20, (1 << 24) + 1]
            } else if head == 4 && v.ck_len() == 1 {
                vec![4096, 65_535 + (head as u64 % 3), 1 << 24]
            } else {
                // (three-byte checksums are stepped by TLC: the 1 MiB piece is kept for the thorough tier)
                vec![4096, 65_535 + (head as u64 % 3)]
            };
            for n in sizes {
                let pat = rng.bytes(41);
                s.new_gen(0);
                if head % 2 == 0 {
                    s.update(0, &rng.bytes(head));
                } else {
                    for _ in 0..head {
                        s.update(0, &rng.bytes(1));
                    }
                }
                s.update_periodic(0, &pat, 0, n, rng, true);
                s.update(0, &rng.bytes(3));
                s.fin(0);
            }
        }
        // one long-lived generator: hundreds of operations on the same object (tiny pieces, finalize fans,
        // clones that are dropped again), the state exported after every one of them
        {
            s.new_gen(0);
            let ops = if thorough { 900 } else { 260 };
            for i in 0..ops {
                match rng.below(12) {
                    0 => s.fin(0),
                    1 => {
                        s.clone_gen(0, 1);
                        if i % 3 == 0 {
                            s.update(1, &rng.bytes(3));
                            s.fin(1);
                        }
                    }
                    _ => {
                        let n = rng.range(0, 3) as usize;
                        let d = rng.bytes(n);
                        s.update(0, &d);
                    }
                }
            }
            s.fin(0);
        }
        // runs of one byte value ("text followed by padding") with piece boundaries 0..5 bytes into a run
        for _ in 0..(if thorough { 12 } else { 3 }) {
            let mut data: Vec<u8> = Vec::new();
            let mut cuts: Vec<usize> = Vec::new();
            for _ in 0..rng.range(2, 4) {
                let k = rng.range(3, 40) as usize;
                data.extend(rng.bytes(k));
                let run = rng.range(33, 90) as usize;
                let fill = *rng.pick(&[0u8, 0x20, 0xff, 0x41]);
                cuts.push(data.len() + rng.below(6) as usize);
                data.extend(std::iter::repeat(fill).take(run));
            }
            s.new_gen(0);
            let mut prev = 0;
            for c in cuts {
                let c = c.min(data.len());
                s.update(0, &data[prev..c]);
                prev = c;
            }
            s.update(0, &data[prev..]);
            s.fin(0);
            s.whole(&data);
        }
        // the far end: the same bytes in 1-3 byte pieces and in one piece (a clone), across the
        // 2^32 - 4 and 4 224 281 216 byte marks (from an injected state a few bytes before)
        for (k, mark) in [(1u64 << 32) - 4, 4_224_281_216u64].into_iter().enumerate() {
            let back = 6 + rng.below(5);
            let mut st = craft_state(*v, rng, k);
            st.len = (mark - back - 4) as u32;
            s.inject(0, &st);
            s.clone_gen(0, 1);
            let total = back as usize + 9;
            let data = rng.bytes(total);
            let mut off = 0;
            while off < total {
                let n = (rng.range(1, 3) as usize).min(total - off);
                s.update(0, &data[off..off + n]);
                off += n;
            }
            s.update(1, &data);
            s.fin(0);
            s.fin(1);
        }
    }
}

/// C10: lengths around MIN / MIN_CONSERVATIVE, bucket fills around the
/// thresholds, and inputs accepted by the default options.
pub fn run_c10(out: &mut Out, rng: &mut Rng, thorough: bool, only: Option<&str>) {
    for v in VARIANTS.iter() {
        if only.map_or(false, |o| o != v.name()) {
            continue;
        }
        let c = v.gen_consts();
        out.emit(
            Ev::new("gen_consts")
                .str("v", v.name())
                .num("min", c[0] as i64)
                .num("minc", c[1] as i64)
                .raw("max", &wide_json(c[2]))
                .meas(0, ""),
        );
        let mut ns: Vec<u32> = vec![0, 1, 9, 10, 11, 49, 50, 51, 127, 128, 129, 4_224_281_215, 4_224_281_216, 4_224_281_217, u32::MAX];
        for _ in 0..20 {
            ns.push(rng.next() as u32);
        }
        for n in ns {
            let (val, e, eo, ec) = v.dlv(n);
            out.emit(
                Ev::new("dlv")
                    .str("v", v.name())
                    .raw("n", &wide_json(n))
                    .str("val", &val)
                    .boolean("is_err", e)
                    .boolean("err_opt", eo)
                    .boolean("err_cons", ec)
                    .meas(0, ""),
            );
        }
        let mut s = Session::new(out, *v);
        let reps = if thorough { 6 } else { 1 };
        for _ in 0..reps {
            for n in [c[0] - 1, c[0], c[0] + 1, c[1] - 1, c[1], c[1] + 1, 5, 300] {
                s.whole(&rng.bytes(n as usize));
                // unbalanced content of the same length
                let k = rng.range(2, 5) as usize;
                let alpha = rng.bytes(k);
                s.whole(&periodic(&alpha, n as usize));
            }
        }
        // constant inputs of EVERY byte value (64 bytes): windows that touch only buckets the variant does not
        // count, or only one of them (the reduced bucket arrays must not confuse "untouched" with "empty input")
        if v.name() == "Normal" || (thorough && v.ck_len() == 1) {
            for b in 0..=255u8 {
                s.whole(&vec![b; 64]);
            }
        }
        // the tiniest inputs (0..8 bytes: less than, exactly and just more than one window), all 32 option sets
        for n in 0..=8usize {
            s.whole(&rng.bytes(n));
        }
        for (fam, d) in FILL_VECTORS {
            if family_matches(v.name(), fam) {
                s.whole(d);
            }
        }
        // around and above the maximum, up to the saturated length counter: too large is never waivable
        for (j, len) in [c[2] - 5, c[2] - 4, c[2] - 3, c[2], 0xffff_fff0, 0xffff_fffb, 0xffff_fffc].into_iter().enumerate() {
            let mut st = craft_state(*v, rng, j);
            st.len = len;
            s.inject(1, &st);
            s.fin(1);
        }
        // accepted inputs with huge counters: a permissive flag must not change their hash
        for j in 0..(if thorough { 36 } else { 9 }) {
            let mut st = craft_state(*v, rng, j);
            st.len = *rng.pick(&[1000u32, 16_777_216, 0x7fff_fffc, 4_224_281_212]);
            s.inject(1, &st);
            s.fin(1);
        }
        for j in 0..(if thorough { 12 } else { 6 }) {
            let mut st = craft_state(*v, rng, 15 + 16 * j); // sparse and huge, one threshold each
            st.len = *rng.pick(&[1000u32, 65_536, 0x7fff_fffc]);
            s.inject(1, &st);
            s.fin(1);
        }
        for j in 0..(if thorough { 40 } else { 8 }) {
            let _ = j;
            let mut st = craft_state(*v, rng, 10); // the sparse recipe (its fill count is drawn afresh each time)
            st.len = *rng.pick(&[c[0] - 5, c[0] - 4, c[1] - 5, c[1] - 4, 1000]);
            s.inject(1, &st);
            s.fin(1);
        }
    }
}

/// C11: histories that start a few bytes before the three boundaries
/// (MAX, 2^32 - 4, 2^32) from injected states.
pub fn run_c11(out: &mut Out, rng: &mut Rng, thorough: bool, only: Option<&str>) {
    const MAX: u64 = 4_224_281_216;
    for v in VARIANTS.iter() {
        if only.map_or(false, |o| o != v.name()) {
            continue;
        }
        let mut s = Session::new(out, *v);
        let marks: [u64; 3] = [MAX, (1u64 << 32) - 4, 1u64 << 32];
        let rounds = if thorough { 10 } else { 2 };
        for round in 0..rounds {
            for &mark in &marks {
                for back in [1u64, 2, 5, 9, 40] {
                    // fed so far = mark - back  (len = fed - 4)
                    let fed = mark - back;
                    let mut st = craft_state(*v, rng, round * 7 + back as usize);
                    st.len = (fed - 4) as u32;
                    s.inject(0, &st);
                    s.fin(0);
                    let mut left: i64 = back as i64 + 12;
                    while left > 0 {
                        let n = *rng.pick(&[0usize, 1, 2, 3, 4, 5, 9]);
                        s.update(0, &rng.bytes(n));
                        if rng.chance(1, 2) {
                            s.fin(0);
                        }
                        left -= n.max(1) as i64;
                    }
                    s.fin(0);
                    // one piece much longer than the remaining room
                    st.len = (fed - 4) as u32;
                    s.inject(0, &st);
                    s.update(0, &rng.bytes(if round % 2 == 0 { 4096 } else { 70 }));
                    s.fin(0);
                    s.update(0, &rng.bytes(3));
                    s.fin(0);
                }
            }
        }
    }
}

// ---- bucket aggregation back ends (C01 e, C07) ---------------------------------

pub const AGG_BACKENDS: [(u8, &str); 4] = [(0, "naive"), (2, "sse2"), (3, "ssse3"), (4, "avx2")];

#[repr(align(16))]
struct AlB<const N: usize>([u32; N]);

fn agg_call(backend: u8, nb: usize, bk: &[u32], q: [u32; 3]) -> Option<Obs<Vec<u8>>> {
    use tlsh::verif::bucket_aggregation as hook;
    macro_rules! go {
        ($f:ident, $small:literal, $large:literal) => {{
            let b = AlB::<$large>(bk[..$large].try_into().unwrap());
            let mut probe = [0u8; $small];
            if !hook::$f(backend, &mut probe, &b.0, q[0], q[1], q[2]) {
                return None;
            }
            Some(obs(|| {
                let mut out = [0u8; $small];
                hook::$f(backend, &mut out, &b.0, q[0], q[1], q[2]);
                out.to_vec()
            }))
        }};
    }
    match nb {
        48 => go!(aggregate_48, 12, 48),
        128 => go!(aggregate_128, 32, 128),
        _ => go!(aggregate_256, 64, 256),
    }
}

pub fn run_agg(out: &mut Out, rng: &mut Rng, thorough: bool, only: Option<&str>) {
    for v in [variant("Short"), variant("Normal"), variant("Long")] {
        if only.map_or(false, |o| o != v.name()) {
            continue;
        }
        let nb = v.nb();
        for j in 0..(if thorough { 128 } else { 32 }) {
            let st = craft_state(v, rng, j);
            let bk = &st.buckets[..nb];
            // quartiles: the exact ones, and arbitrary q1 <= q2 <= q3 (the back ends must not depend on exactness)
            let mut sorted = bk.to_vec();
            sorted.sort();
            let exact = [sorted[nb / 4 - 1], sorted[nb / 2 - 1], sorted[3 * nb / 4 - 1]];
            let mut arb = [bk[rng.below(nb as u64) as usize], rng.next() as u32, bk[rng.below(nb as u64) as usize].wrapping_add(1)];
            arb.sort();
            for q in [exact, arb] {
                for (id, name) in AGG_BACKENDS {
                    if let Some(o) = agg_call(id, nb, bk, q) {
                        out.emit(
                            Ev::new("agg").str("backend", name).num("nb", nb as i64).raw("bk", &wides_json(bk))
                                .raw("q", &wides_json(&q)).bytes("out", &o.v.clone().unwrap_or_default()).meas(o.a, &o.p),
                        );
                    }
                }
            }
        }
    }
}

// ---- real multi-GiB histories (C11 thorough, C03 thorough) ------------------------

impl<'a> Session<'a> {
    /// feed `n` bytes of the periodic stream starting at stream position `off`
    /// natively (in pieces of varied size), then log ONE event for the segment
    pub fn update_periodic(&mut self, i: usize, pat: &[u8], off: u64, n: u64, rng: &mut Rng, one_slice: bool) {
        let mut allocs = 0;
        let mut panic = String::new();
        if one_slice {
            // a single update() call with the whole segment (needs n bytes of address space)
            let buf: Vec<u8> = if pat.iter().all(|&b| b == 0) {
                vec![0u8; n as usize] // lazily zero-filled pages
            } else {
                (0..n).map(|t| pat[((off + t) % pat.len() as u64) as usize]).collect()
            };
            let o = self.gens[i].as_mut().expect("live").update(&buf);
            allocs += o.a;
            panic = o.p;
        } else {
            const CHUNK: usize = 64 << 20;
            let p = pat.len();
            // a buffer holding whole periods, so that any piece is a window of it
            let reps = CHUNK / p + 2;
            let buf: Vec<u8> = (0..reps * p).map(|t| pat[t % p]).collect();
            let mut done = 0u64;
            while done < n {
                let want = *rng.pick(&[1usize, 3, 4096, 1 << 20, 7 << 20, CHUNK]);
                let k = (want as u64).min(n - done) as usize;
                let start = ((off + done) % p as u64) as usize;
                let o = self.gens[i].as_mut().expect("live").update(&buf[start..start + k]);
                allocs += o.a;
                if !o.p.is_empty() && panic.is_empty() {
                    panic = o.p;
                }
                done += k as u64;
            }
        }
        let pl = self.g(i).processed_len();
        let st = state_json(&self.g(i).export());
        let w64 = |x: u64| -> String { format!("[{},{}]", x >> 16, x & 0xffff) };
        self.out.emit(
            Ev::new("gen_update_p")
                .num("g", i as i64)
                .bytes("pat", pat)
                .raw("off", &w64(off % (1u64 << 32)))
                .raw("n", &w64(n))
                .boolean("one_slice", one_slice)
                .raw("st", &st)
                .raw("plen", &opt_wide_json(pl.v.unwrap_or(None)))
                .meas(allocs + pl.a, &panic),
        );
    }
}

/// C11 (thorough): a real stream past 4 GiB with state exports at the marks,
/// and a single slice of more than 4 GiB.
pub fn run_c11big(out: &mut Out, rng: &mut Rng, only: Option<&str>, giant_slice: bool, marks_stream: bool) {
    const MAX: u64 = 4_224_281_216;
    for v in VARIANTS.iter() {
        if only.map_or(false, |o| o != v.name()) {
            continue;
        }
        let mut s = Session::new(out, *v);
        let pat = rng.bytes(61);
        if marks_stream {
            s.new_gen(0);
            let marks: [u64; 7] = [1000, MAX - 8, MAX, MAX + 1, (1u64 << 32) - 5, 1u64 << 32, (1u64 << 32) + 16];
            let mut pos = 0u64;
            for m in marks {
                s.update_periodic(0, &pat, pos, m - pos, rng, false);
                pos = m;
                s.fin(0);
            }
        }
        {
            // one slice of k * 2^30 + {1,2,3} bytes after a random prefix, then more data
            let extra = 1 + rng.below(3);
            let blocks = if marks_stream { 2 } else { 1 };
            s.new_gen(3);
            s.update(3, &rng.bytes(300));
            s.update_periodic(3, &[0u8], 300, blocks * (1u64 << 30) + extra, rng, true);
            s.update(3, &rng.bytes(9));
            s.fin(3);
        }
        {
            // powers of two on both sides: a generator holding exactly 2^31 (then 2^31 + 2^30) bytes in its length
            // counter is handed ONE slice of exactly 2^31 (2^30) bytes
            for (have, piece) in [(1u64 << 31, 1u64 << 31), ((1u64 << 31) + (1u64 << 30), 1u64 << 30)] {
                let mut st = craft_state(*v, rng, 1);
                st.len = have as u32;
                st.tail = [0, 0, 0, 0];
                st.tail_len = 4;
                s.inject(2, &st);
                s.update_periodic(2, &[0u8], have + 4, piece, rng, true);
                s.fin(2);
            }
        }
        if giant_slice && !marks_stream {
            // quick tier: one slice of 2^32 + 445 bytes only
            s.new_gen(1);
            s.update_periodic(1, &[0u8], 0, (1u64 << 32) + 445, rng, true);
            s.fin(1);
        } else if giant_slice {
            // one update() call with more than 2^32 bytes (all zero: lazily mapped pages)
            s.new_gen(1);
            s.update_periodic(1, &[0u8], 0, (1u64 << 32) + 445, rng, true);
            s.fin(1);
            s.new_gen(2);
            s.update(2, &[0u8; 1000]);
            s.update_periodic(2, &[0u8], 1000, 1u64 << 32, rng, true);
            s.fin(2);
        }
    }
}
