//! Stream / file family (C12) and adversarial readers (C17).
#![cfg(all(feature = "easy", feature = "std"))]

/// GeneratorOrIOError -> ("Generator", kind) | ("IO", io kind)
pub fn conv(r: Result<Vec<u8>, tlsh::GeneratorOrIOError>) -> Result<Vec<u8>, (String, String)> {
    r.map_err(|e| match e {
        tlsh::GeneratorOrIOError::GeneratorError(g) => ("Generator".to_string(), format!("{:?}", g)),
        tlsh::GeneratorOrIOError::IOError(io) => ("IO".to_string(), format!("{:?}", io.kind())),
    })
}
