//! Stream / file family (C12) and adversarial readers (C17).
#![cfg(all(feature = "easy", feature = "std"))]
use crate::json::*;
use crate::rng::Rng;
use crate::variants::*;
use std::io::{ErrorKind, Read};

/// GeneratorOrIOError -> ("Generator", kind) | ("IO", io kind)
pub fn conv(r: Result<Vec<u8>, tlsh::GeneratorOrIOError>) -> Result<Vec<u8>, (String, String)> {
    r.map_err(|e| match e {
        tlsh::GeneratorOrIOError::GeneratorError(g) => ("Generator".to_string(), format!("{:?}", g)),
        tlsh::GeneratorOrIOError::IOError(io) => ("IO".to_string(), format!("{:?}", io.kind())),
    })
}

#[derive(Clone, Debug)]
pub enum Step {
    Deliver(usize),
    Interrupt,
    Error(ErrorKind),
    Eof,
    Misreport(usize), // how many bytes beyond the buffer length are claimed
    Nested(usize),            // before delivering this many bytes, read() itself hashes another stream and a file
    ErrorWith(ErrorKind, u8), // a hard error whose payload is itself an error value of the library (0..3) or an io::Error
    Lie(usize),       // claims this many bytes (within the buffer) without writing any
    InterruptBurst(usize),        // this many interruptions in a row (logged as ONE event with a count)
    Alternate(usize, usize),      // count x (one interruption, then n bytes) (logged as ONE event)
    DeliverRun(usize, usize),     // count x (n bytes), no interruptions (logged as ONE okp_run event)
}

/// A reader that follows a script and logs every read call.
pub struct ScriptReader {
    pub script: Vec<Step>,
    pub pos: usize,
    pub data: Content,
    pub off: usize,
    pub log: Vec<String>,
    pub burst_left: usize,
    pub alt: (usize, usize, bool), // (repetitions left, n, next answer is the interruption)
    pub alt_plain: bool,           // the run has no interruptions
}

pub enum Content {
    Explicit(Vec<u8>),
    Periodic(Vec<u8>, usize), // pattern, total size
}

/// A reader over an endless periodic stream that delivers full buffers, except that it makes
/// read boundaries fall exactly on the given marks, and reports a hard error (or EOF) at `end`.
/// Consecutive reads of the same size are logged as ONE event (`okp_run`): lossless, and by
/// chunking independence (MCGenChunk, C03) equivalent to one delivery of count * n bytes.
pub struct BigReader {
    pub pat: Vec<u8>,
    pub pos: u64,
    pub marks: Vec<u64>,
    pub end: u64,
    pub end_with_error: Option<ErrorKind>,
    pub log: Vec<String>,
    run: Option<(u64, u64, u64, usize)>, // (start pos, n each, count, buflen)
    block: Vec<u8>,
}

impl BigReader {
    pub fn new(pat: Vec<u8>, marks: Vec<u64>, end: u64, end_with_error: Option<ErrorKind>) -> BigReader {
        let p = pat.len();
        let block: Vec<u8> = (0..(MIB + p)).map(|i| pat[i % p]).collect();
        BigReader { pat, pos: 0, marks, end, end_with_error, log: Vec::new(), run: None, block }
    }
    fn flush_run(&mut self) {
        if let Some((start, n, count, buflen)) = self.run.take() {
            self.log.push(format!(
                "{{\"e\":\"read\",\"buflen\":{},\"ret\":{{\"kind\":\"okp_run\",\"n\":{},\"count\":{},\"pat\":{},\"off\":[{},{}]}}}}",
                buflen, n, count, bytes_json(&self.pat), (start % (1u64 << 32)) >> 16, start & 0xffff
            ));
        }
    }
}

impl Read for BigReader {
    fn read(&mut self, buf: &mut [u8]) -> std::io::Result<usize> {
        if self.pos >= self.end {
            self.flush_run();
            return match self.end_with_error {
                Some(kind) => {
                    self.log.push(format!(
                        "{{\"e\":\"read\",\"buflen\":{},\"ret\":{{\"kind\":\"err\",\"err\":\"{:?}\"}}}}", buf.len(), kind));
                    Err(std::io::Error::new(kind, "scripted error"))
                }
                None => {
                    self.log.push(format!("{{\"e\":\"read\",\"buflen\":{},\"ret\":{{\"kind\":\"eof\"}}}}", buf.len()));
                    Ok(0)
                }
            };
        }
        let next_mark = self.marks.iter().copied().filter(|&m| m > self.pos).min().unwrap_or(u64::MAX).min(self.end);
        let n = (buf.len() as u64).min(next_mark - self.pos) as usize;
        let start = (self.pos % self.pat.len() as u64) as usize;
        buf[..n].copy_from_slice(&self.block[start..start + n]);
        match &mut self.run {
            Some((_, rn, count, bl)) if *rn == n as u64 && *bl == buf.len() => *count += 1,
            _ => {
                self.flush_run();
                self.run = Some((self.pos, n as u64, 1, buf.len()));
            }
        }
        self.pos += n as u64;
        Ok(n)
    }
}

impl Content {
    fn len(&self) -> usize {
        match self {
            Content::Explicit(d) => d.len(),
            Content::Periodic(_, n) => *n,
        }
    }
    pub fn materialize(&self) -> Vec<u8> {
        match self {
            Content::Explicit(d) => d.clone(),
            Content::Periodic(p, n) => (0..*n).map(|i| p[i % p.len()]).collect(),
        }
    }
}

impl Read for ScriptReader {
    fn read(&mut self, buf: &mut [u8]) -> std::io::Result<usize> {
        if self.burst_left > 0 {
            self.burst_left -= 1;
            return Err(std::io::Error::new(ErrorKind::Interrupted, "scripted interruption"));
        }
        if self.alt.0 > 0 {
            if self.alt.2 && !self.alt_plain {
                self.alt.2 = false;
                return Err(std::io::Error::new(ErrorKind::Interrupted, "scripted interruption"));
            }
            let n = self.alt.1;
            if let Content::Periodic(p, _) = &self.data {
                for (i, b) in buf[..n].iter_mut().enumerate() {
                    *b = p[(self.off + i) % p.len()];
                }
            }
            self.off += n;
            self.alt.0 -= 1;
            self.alt.2 = true;
            return Ok(n);
        }
        let step = self.script.get(self.pos).cloned().unwrap_or(Step::Eof);
        self.pos += 1;
        let remaining = self.data.len() - self.off;
        match step {
            Step::Deliver(k) if remaining > 0 => {
                let n = k.max(1).min(buf.len()).min(remaining);
                match &self.data {
                    Content::Explicit(d) => {
                        buf[..n].copy_from_slice(&d[self.off..self.off + n]);
                        self.log.push(format!(
                            "{{\"e\":\"read\",\"buflen\":{},\"ret\":{{\"kind\":\"ok\",\"data\":{}}}}}",
                            buf.len(),
                            bytes_json(&buf[..n])
                        ));
                    }
                    Content::Periodic(p, _) => {
                        for (i, b) in buf[..n].iter_mut().enumerate() {
                            *b = p[(self.off + i) % p.len()];
                        }
                        self.log.push(format!(
                            "{{\"e\":\"read\",\"buflen\":{},\"ret\":{{\"kind\":\"okp\",\"n\":{},\"pat\":{},\"off\":{}}}}}",
                            buf.len(),
                            n,
                            bytes_json(p),
                            self.off
                        ));
                    }
                }
                self.off += n;
                Ok(n)
            }
            Step::Deliver(_) | Step::Eof => {
                self.log.push(format!("{{\"e\":\"read\",\"buflen\":{},\"ret\":{{\"kind\":\"eof\"}}}}", buf.len()));
                Ok(0)
            }
            Step::Interrupt => {
                self.log.push(format!("{{\"e\":\"read\",\"buflen\":{},\"ret\":{{\"kind\":\"int\"}}}}", buf.len()));
                Err(std::io::Error::new(ErrorKind::Interrupted, "scripted interruption"))
            }
            Step::Error(kind) => {
                self.log.push(format!(
                    "{{\"e\":\"read\",\"buflen\":{},\"ret\":{{\"kind\":\"err\",\"err\":\"{:?}\"}}}}",
                    buf.len(),
                    kind
                ));
                Err(std::io::Error::new(kind, "scripted error"))
            }
            Step::Nested(k) if remaining > 0 => {
                // re-entrancy: this reader hashes something else on the same thread (a digest-list reader would)
                let inner: Vec<u8> = (0..300u32).map(|i| (i * 7 + 3) as u8).collect();
                let mut cur = std::io::Cursor::new(inner.clone());
                let nested_ok = std::panic::catch_unwind(std::panic::AssertUnwindSafe(|| {
                    let a = tlsh::hash_stream(&mut cur).map(|h| h.to_string()).ok();
                    let b = tlsh::hash_buf(&inner).map(|h| h.to_string()).ok();
                    a == b && a.is_some()
                }))
                .unwrap_or(false);
                let n = k.max(1).min(buf.len()).min(remaining);
                if let Content::Explicit(d) = &self.data {
                    buf[..n].copy_from_slice(&d[self.off..self.off + n]);
                }
                // the nested call must have worked; if it did not, this reader reports it as a hard error of a
                // kind no script uses, so that the trace cannot be explained by Stream.tla
                if !nested_ok {
                    self.log.push(format!("{{\"e\":\"read\",\"buflen\":{},\"ret\":{{\"kind\":\"nested_failed\"}}}}", buf.len()));
                    return Err(std::io::Error::new(ErrorKind::Other, "nested hashing failed"));
                }
                self.log.push(format!(
                    "{{\"e\":\"read\",\"buflen\":{},\"ret\":{{\"kind\":\"ok\",\"data\":{}}}}}",
                    buf.len(), bytes_json(&buf[..n])
                ));
                self.off += n;
                Ok(n)
            }
            Step::Nested(_) => {
                self.log.push(format!("{{\"e\":\"read\",\"buflen\":{},\"ret\":{{\"kind\":\"eof\"}}}}", buf.len()));
                Ok(0)
            }
            Step::ErrorWith(kind, what) => {
                self.log.push(format!(
                    "{{\"e\":\"read\",\"buflen\":{},\"ret\":{{\"kind\":\"err\",\"err\":\"{:?}\",\"payload\":{}}}}}",
                    buf.len(), kind, what
                ));
                Err(match what {
                    0 => std::io::Error::new(kind, tlsh::GeneratorError::TooLargeInput),
                    1 => std::io::Error::new(kind, tlsh::GeneratorError::TooSmallInput),
                    2 => std::io::Error::new(kind, tlsh::ParseError::InvalidCharacter),
                    3 => std::io::Error::new(kind, tlsh::GeneratorOrIOError::GeneratorError(tlsh::GeneratorError::BucketsAreHalfEmpty)),
                    _ => std::io::Error::new(kind, std::io::Error::new(ErrorKind::Interrupted, "nested")),
                })
            }
            Step::InterruptBurst(k) => {
                self.log.push(format!("{{\"e\":\"read\",\"buflen\":{},\"ret\":{{\"kind\":\"int\",\"count\":{}}}}}", buf.len(), k.max(1)));
                self.burst_left = k.max(1) - 1;
                Err(std::io::Error::new(ErrorKind::Interrupted, "scripted interruption"))
            }
            Step::Alternate(count, n) => {
                // periodic content only; the caller guarantees count * n bytes remain and n <= buf.len()
                let (pat, off) = match &self.data {
                    Content::Periodic(p, _) => (p.clone(), self.off),
                    _ => panic!("Alternate needs periodic content"),
                };
                self.log.push(format!(
                    "{{\"e\":\"read\",\"buflen\":{},\"ret\":{{\"kind\":\"int_okp_run\",\"n\":{},\"count\":{},\"pat\":{},\"off\":[{},{}]}}}}",
                    buf.len(), n, count, bytes_json(&pat), off >> 16, off & 0xffff
                ));
                self.alt = (count, n, false);
                self.alt_plain = false;
                Err(std::io::Error::new(ErrorKind::Interrupted, "scripted interruption"))
            }
            Step::DeliverRun(count, n) => {
                let (pat, off) = match &self.data {
                    Content::Periodic(p, _) => (p.clone(), self.off),
                    _ => panic!("DeliverRun needs periodic content"),
                };
                self.log.push(format!(
                    "{{\"e\":\"read\",\"buflen\":{},\"ret\":{{\"kind\":\"okp_run\",\"n\":{},\"count\":{},\"pat\":{},\"off\":[{},{}]}}}}",
                    buf.len(), n, count, bytes_json(&pat), off >> 16, off & 0xffff
                ));
                self.alt = (count, n, false);
                self.alt_plain = true;
                // the first delivery of the run is this very call
                for (i, b) in buf[..n].iter_mut().enumerate() {
                    *b = pat[(off + i) % pat.len()];
                }
                self.off += n;
                self.alt.0 -= 1;
                Ok(n)
            }
            Step::Lie(k) => {
                let n = k.max(1).min(buf.len());
                self.log.push(format!("{{\"e\":\"read\",\"buflen\":{},\"ret\":{{\"kind\":\"lie\",\"n\":{}}}}}", buf.len(), n));
                Ok(n)
            }
            Step::Misreport(extra) => {
                let n = buf.len().saturating_add(extra.max(1));
                self.log.push(format!(
                    "{{\"e\":\"read\",\"buflen\":{},\"ret\":{{\"kind\":\"mis\",\"n\":{}}}}}",
                    buf.len(),
                    if n > (1usize << 30) { 1usize << 30 } else { n }
                ));
                Ok(n)
            }
        }
    }
}

fn outcome_json(o: &Obs<Result<Vec<u8>, (String, String)>>) -> String {
    if !o.p.is_empty() {
        return "{\"kind\":\"Panic\"}".to_string();
    }
    match o.v.as_ref().unwrap() {
        Ok(h) => format!("{{\"kind\":\"Hash\",\"r\":{}}}", res_json(&Ok(h.clone()))),
        Err((cat, e)) if cat == "Generator" => format!("{{\"kind\":\"Hash\",\"r\":{}}}", res_json(&Err(e.clone()))),
        Err((_, e)) => format!("{{\"kind\":\"IOError\",\"e\":\"{}\"}}", e),
    }
}

pub fn run_stream(out: &mut Out, v: &dyn Var, content: Content, script: Vec<Step>, use_plain: bool) {
    let small = content.len() <= 70_000 && !script.iter().any(|st| matches!(st, Step::Lie(_)));
    let all = if small { Some(content.materialize()) } else { None };
    let mut rd = ScriptReader { script, pos: 0, data: content, off: 0, log: Vec::new(), burst_left: 0, alt: (0, 0, true), alt_plain: false };
    out.emit(Ev::new("stream_begin").str("v", v.name()).meas(0, ""));
    let o = if use_plain {
        // tlsh::hash_stream (the Normal variant)
        obs(|| tlsh::hash_stream(&mut rd)).map(|r| {
            use tlsh::FuzzyHashType;
            conv(r.map(|h| {
                let mut img = Vec::new();
                img.extend_from_slice(h.checksum().data());
                img.push(h.length().value());
                img.push(h.qratios().value());
                img.extend_from_slice(h.body().data());
                img
            }))
        })
    } else {
        v.hash_stream(&mut rd)
    };
    for line in rd.log.iter() {
        out.emit_raw(line);
    }
    // hash_buf of exactly the delivered bytes, from the same process (small streams only)
    let hb = match &all {
        Some(d) => {
            let r = v.hash_buf(&d[..rd.off]);
            match r.v {
                Some(r) => format!("{{\"kind\":\"Hash\",\"r\":{}}}", res_json(&r)),
                None => "{\"kind\":\"Panic\"}".to_string(),
            }
        }
        None => "{\"kind\":\"None\"}".to_string(),
    };
    out.emit(
        Ev::new("stream_end")
            .raw("r", &outcome_json(&o))
            .raw("hb", &hb)
            .num("delivered", rd.off as i64)
            .str("panic", &o.p)
            .meas(o.a, ""),
    );
}

const MIB: usize = 1 << 20;

fn random_script(rng: &mut Rng, total: usize, max_piece: usize, interrupts: usize) -> Vec<Step> {
    let mut s = Vec::new();
    let mut left = total;
    while left > 0 {
        let k = rng.range(1, max_piece as u64) as usize;
        s.push(Step::Deliver(k));
        left = left.saturating_sub(k.min(MIB));
    }
    s.push(Step::Eof);
    for _ in 0..interrupts {
        let i = rng.below(s.len() as u64 + 1) as usize;
        s.insert(i.min(s.len() - 1), Step::Interrupt);
    }
    s
}

pub fn run_c12(out: &mut Out, rng: &mut Rng, thorough: bool, only: Option<&str>, with_interrupts: bool) {
    let kinds = [ErrorKind::Other, ErrorKind::UnexpectedEof, ErrorKind::PermissionDenied, ErrorKind::TimedOut, ErrorKind::WouldBlock];
    for v in VARIANTS.iter() {
        if only.map_or(false, |o| o != v.name()) {
            continue;
        }
        let reps = if thorough { 8 } else { 2 };
        // small streams, arbitrary partial reads
        for r in 0..reps {
            for n in [0usize, 3, 10, 49, 50, 51, 128, 300, 1500] {
                let data = if r % 2 == 0 { rng.bytes(n) } else { crate::fam_gen::periodic(&[0xa4, 0x0e, 0x33], n) };
                let ints = if with_interrupts { rng.below(4) as usize } else { 0 };
                let script = random_script(rng, n, 40, ints);
                run_stream(out, *v, Content::Explicit(data), script, v.name() == "Normal" && r == 0);
            }
        }
        // a hard error at every position class, several kinds
        for (i, kind) in kinds.iter().enumerate() {
            let n = 200;
            let mut script = random_script(rng, n, 60, 0);
            let at = match i % 3 {
                0 => 0,
                1 => script.len() / 2,
                _ => script.len() - 1,
            };
            script.insert(at, Step::Error(*kind));
            if with_interrupts && i % 2 == 0 {
                script.insert(0, Step::Interrupt);
            }
            run_stream(out, *v, Content::Explicit(rng.bytes(n)), script, false);
        }
        // re-entrancy: a reader whose read() hashes another stream on the same thread (first read, a later read)
        for at in [0usize, 2] {
            let n = 400;
            let mut script = vec![Step::Deliver(100), Step::Deliver(100), Step::Deliver(100), Step::Deliver(100), Step::Eof];
            script[at] = Step::Nested(100);
            run_stream(out, *v, Content::Explicit(rng.bytes(n)), script, false);
        }
        // hard errors that CARRY a payload: the library's own error values, a nested io::Error
        for what in 0..5u8 {
            let n = 300;
            let mut script = random_script(rng, n, 120, 0);
            let at = if what % 2 == 0 { 0 } else { script.len() - 1 };
            script.insert(at, Step::ErrorWith(if what == 4 { ErrorKind::Other } else { ErrorKind::InvalidData }, what));
            run_stream(out, *v, Content::Explicit(rng.bytes(n)), script, false);
        }
        // interruptions in a row: at the start, in the middle, just before EOF
        if with_interrupts {
            for place in 0..3 {
                let n = 120;
                let mut script = random_script(rng, n, 50, 0);
                let at = match place {
                    0 => 0,
                    1 => script.len() / 2,
                    _ => script.len() - 1,
                };
                for _ in 0..rng.range(1, 5) {
                    script.insert(at, Step::Interrupt);
                }
                run_stream(out, *v, Content::Explicit(rng.bytes(n)), script, false);
            }
        }
        // three-byte checksums: one stream just beyond the internal buffer (the checksum is stepped by TLC)
        if v.ck_len() == 3 {
            let plen = 47 + rng.below(15) as usize;
            let pat = rng.bytes(plen);
            let n = MIB + 5 + rng.below(40) as usize;
            let script = if rng.chance(1, 2) { random_script(rng, n, MIB / 3, 0) } else { vec![Step::Deliver(usize::MAX); 4] };
            run_stream(out, *v, Content::Periodic(pat, n), script, false);
        }
        // streams around and beyond the internal 1 MiB buffer (periodic content)
        if v.ck_len() == 1 {
            let sizes: Vec<usize> = if thorough { vec![MIB - 1, MIB, MIB + 1, 3 * MIB + 7] } else { vec![MIB, MIB + 1, 2 * MIB + 5] };
            for (j, n) in sizes.into_iter().enumerate() {
                // long random periods give balanced buckets, so that a hash (not an error) is the outcome
                let pat = match j % 3 {
                    0 => rng.bytes(61),
                    1 => rng.bytes(47),
                    _ => vec![0xa4, 0x0e],
                };
                let mut script = match j % 3 {
                    0 => random_script(rng, n, MIB / 3, 0),
                    1 => random_script(rng, n, MIB, 0),
                    _ => vec![Step::Deliver(usize::MAX); 8],
                };
                if with_interrupts {
                    script.insert(1, Step::Interrupt);
                }
                run_stream(out, *v, Content::Periodic(pat, n), script, false);
            }
        }
    }
    if with_interrupts {
        run_many(out, rng, thorough, only);
    }
    files(out, rng, thorough, only);
}

/// Unbounded repetition: 70 000 interruptions in a row (start, middle), 66 000 deliveries of 1 - 3 bytes
/// each preceded by an interruption, and more than 2^20 short deliveries (each run logged as ONE event).
/// The stream's hash - length code included - is that of all bytes delivered, however many reads it took.
pub fn run_many(out: &mut Out, rng: &mut Rng, thorough: bool, only: Option<&str>) {
    {
        for v in VARIANTS.iter() {
            if only.map_or(false, |o| o != v.name()) || v.ck_len() != 1 {
                continue;
            }
            let pat = rng.bytes(59);
            let big = if thorough { 1usize << 24 } else { 70_000 };
            run_stream(out, *v, Content::Periodic(pat.clone(), 5000), vec![Step::InterruptBurst(big), Step::Deliver(3000), Step::InterruptBurst(70_000), Step::Deliver(2000), Step::Eof], false);
            let n = 1 + rng.below(3) as usize;
            run_stream(out, *v, Content::Periodic(pat.clone(), 66_000 * n + 100), vec![Step::Deliver(100), Step::Alternate(66_000, n), Step::Eof], false);
            // more read calls than 2^12, 2^16, 2^20 (each delivering 1 - 3 bytes), without interruptions
            let many = (1usize << 20) + 4099;
            run_stream(out, *v, Content::Periodic(pat, many * n + 64), vec![Step::Deliver(64), Step::DeliverRun(many, n), Step::Eof], false);
        }
    }
}

fn files(out: &mut Out, rng: &mut Rng, thorough: bool, only: Option<&str>) {
    let dir = std::env::var("VREC_TMP").unwrap_or_else(|_| "/verif/work/tmp".to_string());
    let _ = std::fs::create_dir_all(&dir);
    for v in VARIANTS.iter() {
        if only.map_or(false, |o| o != v.name()) || v.ck_len() != 1 {
            continue;
        }
        let sizes: Vec<usize> = if thorough { vec![0, 1, 9, 10, 11, 49, 50, 51, 100, 255, 256, MIB - 1, MIB, MIB + 1, 3 * MIB + 7] }
                                else { vec![0, 10, 49, 50, 100, 256, MIB, MIB + 1] };
        for n in sizes {
            let pat = rng.bytes(53);
            let path = std::path::PathBuf::from(format!("{}/f-{}-{}-{}.bin", dir, std::process::id(), v.name(), n));
            let data: Vec<u8> = (0..n).map(|i| pat[i % 53]).collect();
            std::fs::write(&path, &data).expect("write temp file");
            let o = v.hash_file(&path);
            let _ = std::fs::remove_file(&path);
            out.emit(
                Ev::new("file").str("v", v.name()).bytes("pat", &pat).num("size", n as i64)
                    .raw("r", &outcome_json(&o)).meas(o.a, &o.p),
            );
        }
        // a file whose metadata reports size 0 but which delivers bytes (procfs)
        let proc_path = std::path::Path::new("/proc/filesystems");
        if let (Ok(d1), Ok(d2)) = (std::fs::read(proc_path), std::fs::read(proc_path)) {
            if d1 == d2 && !d1.is_empty() && d1.len() < 20_000 {
                let o = v.hash_file(proc_path);
                out.emit(Ev::new("file_data").str("v", v.name()).bytes("data", &d1).raw("r", &outcome_json(&o)).meas(o.a, &o.p));
            }
        }
        // path forms: a symlink, a relative path with `.` and `..`, a descriptor link to a file that has been
        // unlinked, a descriptor link to an anonymous pipe (both have no name any more), a dangling symlink
        {
            use std::os::unix::io::AsRawFd;
            let data = rng.bytes(3000);
            let real = std::path::PathBuf::from(format!("{}/p-{}-{}.bin", dir, std::process::id(), v.name()));
            std::fs::write(&real, &data).expect("write temp file");
            let link = std::path::PathBuf::from(format!("{}/l-{}-{}", dir, std::process::id(), v.name()));
            let _ = std::fs::remove_file(&link);
            let mut emit_data = |out: &mut Out, why: &str, o: Obs<Result<Vec<u8>, (String, String)>>| {
                out.emit(Ev::new("file_data").str("v", v.name()).str("why", why).bytes("data", &data).raw("r", &outcome_json(&o)).meas(o.a, &o.p));
            };
            if std::os::unix::fs::symlink(&real, &link).is_ok() {
                emit_data(out, "symlink", v.hash_file(&link));
                let _ = std::fs::remove_file(&link);
            }
            if let Some(name) = real.file_name().and_then(|n| n.to_str()) {
                let dotted = std::path::PathBuf::from(format!("{}/./../{}/{}", dir, std::path::Path::new(&dir).file_name().and_then(|n| n.to_str()).unwrap_or("."), name));
                emit_data(out, "dotted", v.hash_file(&dotted));
            }
            if let Ok(f) = std::fs::File::open(&real) {
                let _ = std::fs::remove_file(&real);
                let fdpath = std::path::PathBuf::from(format!("/proc/self/fd/{}", f.as_raw_fd()));
                if fdpath.exists() {
                    emit_data(out, "unlinked", v.hash_file(&fdpath));
                }
            }
            let _ = std::fs::remove_file(&real);
            let mut fds = [0i32; 2];
            if unsafe { libc::pipe(fds.as_mut_ptr()) } == 0 {
                let (rfd, wfd) = (fds[0], fds[1]);
                let d2 = data.clone();
                let w = std::thread::spawn(move || {
                    use std::io::Write;
                    use std::os::unix::io::FromRawFd;
                    let mut f = unsafe { std::fs::File::from_raw_fd(wfd) };
                    let _ = f.write_all(&d2);
                });
                let fdpath = std::path::PathBuf::from(format!("/proc/self/fd/{}", rfd));
                let o = v.hash_file(&fdpath);
                let _ = w.join();
                // if the library never opened the pipe, the writer has finished or failed; either way close our end
                unsafe { libc::close(rfd) };
                emit_data(out, "pipe", o);
            }
            // names that are not valid UTF-8: an existing file and a missing one
            {
                use std::os::unix::ffi::OsStrExt;
                let mut raw = format!("{}/nonutf8-{}-", dir, std::process::id()).into_bytes();
                raw.extend_from_slice(b"\xff\xfe\xc3.bin");
                let odd = std::path::PathBuf::from(std::ffi::OsStr::from_bytes(&raw));
                if std::fs::write(&odd, &data).is_ok() {
                    emit_data(out, "nonutf8", v.hash_file(&odd));
                    let _ = std::fs::remove_file(&odd);
                }
                let o = v.hash_file(&odd);
                out.emit(Ev::new("file_err").str("v", v.name()).str("why", "missing").raw("r", &outcome_json(&o)).meas(o.a, &o.p));
            }
            if std::os::unix::fs::symlink(format!("{}/nowhere-{}", dir, std::process::id()), &link).is_ok() {
                let o = v.hash_file(&link);
                let _ = std::fs::remove_file(&link);
                out.emit(Ev::new("file_err").str("v", v.name()).str("why", "missing").raw("r", &outcome_json(&o)).meas(o.a, &o.p));
            }
        }
        // a regular file that GROWS while it is hashed (a log being written): whatever prefix gets hashed, the call
        // returns a hash or a generator error - the content is not judged, the outcome kind is
        {
            let path = std::path::PathBuf::from(format!("{}/grow-{}-{}.bin", dir, std::process::id(), v.name()));
            let block = rng.bytes(4 * MIB + 12_345);
            if std::fs::write(&path, &block).is_ok() {
                let stop = std::sync::Arc::new(std::sync::atomic::AtomicBool::new(false));
                let (p2, s2) = (path.clone(), stop.clone());
                let w = std::thread::spawn(move || {
                    use std::io::Write;
                    if let Ok(mut f) = std::fs::OpenOptions::new().append(true).open(&p2) {
                        let chunk = vec![0x5au8; 256 * 1024];
                        let mut written = 0usize;
                        while !s2.load(std::sync::atomic::Ordering::Relaxed) && written < 64 * MIB {
                            if f.write_all(&chunk).is_err() {
                                break;
                            }
                            written += chunk.len();
                        }
                    }
                });
                std::thread::sleep(std::time::Duration::from_millis(2));
                let o = v.hash_file(&path);
                stop.store(true, std::sync::atomic::Ordering::Relaxed);
                let _ = w.join();
                let _ = std::fs::remove_file(&path);
                let kind = if !o.p.is_empty() { "Panic" } else if matches!(o.v, Some(Err((ref c, _))) if c == "IO") { "IOError" } else { "Hash" };
                out.emit(Ev::new("file_any").str("v", v.name()).str("why", "growing").str("kind", kind).str("panic", &o.p).meas(o.a, ""));
            }
        }
        // sysfs attributes: regular files by their metadata, which reports one page whatever they deliver
        for sys in ["/sys/devices/system/cpu/modalias", "/sys/devices/system/cpu/possible", "/sys/kernel/mm/transparent_hugepage/enabled",
                    "/sys/devices/system/cpu/cpu0/topology/core_cpus_list", "/sys/kernel/notes"] {
            let sp = std::path::Path::new(sys);
            if let (Ok(d1), Ok(d2)) = (std::fs::read(sp), std::fs::read(sp)) {
                if d1 == d2 && !d1.is_empty() && d1.len() < 20_000 {
                    let o = v.hash_file(sp);
                    out.emit(Ev::new("file_data").str("v", v.name()).str("why", "sysfs").bytes("data", &d1).raw("r", &outcome_json(&o)).meas(o.a, &o.p));
                }
            }
        }
        // a FIFO (size 0 in metadata, short reads) carrying more than one buffer of periodic content
        let fifo = std::path::PathBuf::from(format!("{}/fifo-{}-{}", dir, std::process::id(), v.name()));
        let _ = std::fs::remove_file(&fifo);
        if std::process::Command::new("mkfifo").arg(&fifo).status().map(|s| s.success()).unwrap_or(false) {
            let pat = rng.bytes(59);
            let n: usize = if thorough { 2 * MIB + 11 } else { MIB + 5 };
            let (p2, f2) = (pat.clone(), fifo.clone());
            let writer = std::thread::spawn(move || {
                use std::io::Write;
                if let Ok(mut w) = std::fs::OpenOptions::new().write(true).open(&f2) {
                    let data: Vec<u8> = (0..n).map(|i| p2[i % 59]).collect();
                    for chunk in data.chunks(70_001) {
                        if w.write_all(chunk).is_err() {
                            break;
                        }
                    }
                }
            });
            let o = v.hash_file(&fifo);
            // Unblock the writer whatever the library did: opening a FIFO read+write never blocks;
            // once it is closed again a writer still blocked in open() proceeds and then fails with
            // EPIPE, and a writer that already finished is unaffected.
            drop(std::fs::OpenOptions::new().read(true).write(true).open(&fifo));
            let _ = writer.join();
            let _ = std::fs::remove_file(&fifo);
            out.emit(
                Ev::new("file").str("v", v.name()).bytes("pat", &pat).num("size", n as i64)
                    .raw("r", &outcome_json(&o)).meas(o.a, &o.p),
            );
        }
        let missing = std::path::PathBuf::from(format!("{}/does-not-exist-{}", dir, std::process::id()));
        let o = v.hash_file(&missing);
        out.emit(Ev::new("file_err").str("v", v.name()).str("why", "missing").raw("r", &outcome_json(&o)).meas(o.a, &o.p));
        let o = v.hash_file(std::path::Path::new(&dir));
        out.emit(Ev::new("file_err").str("v", v.name()).str("why", "directory").raw("r", &outcome_json(&o)).meas(o.a, &o.p));
    }
}

/// C12 / C09 / C11 at the far end: more than 4 GiB through hash_stream, read boundaries exactly
/// on MAX and on 2^32, then a hard error (which must be returned) or EOF (TooLargeInput).
pub fn run_c12big(out: &mut Out, rng: &mut Rng, only: Option<&str>, all: bool) {
    const MAX: u64 = 4_224_281_216;
    for v in VARIANTS.iter() {
        if only.map_or(false, |o| o != v.name()) || v.ck_len() != 1 {
            continue;
        }
        let mut cases: Vec<(u64, Option<ErrorKind>)> = vec![((1u64 << 32) + 3 * MIB as u64 + 17, Some(ErrorKind::Other))];
        if all {
            cases.push((MAX + 1, None));
            cases.push((MAX, None));
        }
        for (end, err) in cases {
            let mut rd = BigReader::new(rng.bytes(61), vec![MAX, 1u64 << 32], end, err);
            out.emit(Ev::new("stream_begin").str("v", v.name()).meas(0, ""));
            let o = v.hash_stream(&mut rd);
            for line in rd.log.iter() {
                out.emit_raw(line);
            }
            out.emit(
                Ev::new("stream_end").raw("r", &outcome_json(&o)).raw("hb", "{\"kind\":\"None\"}")
                    .num("delivered", (rd.pos >> 20) as i64).str("panic", &o.p).meas(o.a, ""),
            );
        }
    }
}

/// C10 / C12 at the far end: hash_file on sparse regular files of MAX - 1, MAX and MAX + 1 bytes
/// (a random head, then zeros): the size limit is inclusive whatever the metadata says.
pub fn run_bigfile(out: &mut Out, rng: &mut Rng, only: Option<&str>, all: bool) {
    const MAX: u64 = 4_224_281_216;
    let dir = std::env::var("VREC_TMP").unwrap_or_else(|_| "/verif/work/tmp".to_string());
    let _ = std::fs::create_dir_all(&dir);
    for v in VARIANTS.iter() {
        if only.map_or(false, |o| o != v.name()) || v.ck_len() != 1 {
            continue;
        }
        // the limits are about the bytes READ, whatever the path's own metadata says: a 4 KiB file reached
        // through a symlink (whose lstat size is the length of the target string)
        {
            let data = rng.bytes(4096);
            let real = std::path::PathBuf::from(format!("{}/bl-{}-{}.bin", dir, std::process::id(), v.name()));
            let link = std::path::PathBuf::from(format!("{}/bl-{}-{}.lnk", dir, std::process::id(), v.name()));
            let _ = std::fs::remove_file(&link);
            if std::fs::write(&real, &data).is_ok() && std::os::unix::fs::symlink(&real, &link).is_ok() {
                let o = v.hash_file(&link);
                out.emit(Ev::new("file_data").str("v", v.name()).str("why", "symlink").bytes("data", &data).raw("r", &outcome_json(&o)).meas(o.a, &o.p));
            }
            let _ = std::fs::remove_file(&link);
            let _ = std::fs::remove_file(&real);
        }
        let sizes: Vec<u64> = if all { vec![MAX - 1, MAX, MAX + 1] } else { vec![MAX] };
        for size in sizes {
            let head = rng.bytes(4096);
            let path = std::path::PathBuf::from(format!("{}/big-{}-{}-{}.bin", dir, std::process::id(), v.name(), size));
            {
                use std::io::Write;
                let mut f = std::fs::File::create(&path).expect("create temp file");
                f.write_all(&head).expect("write temp file");
                f.set_len(size).expect("extend temp file");
            }
            let o = v.hash_file(&path);
            let _ = std::fs::remove_file(&path);
            out.emit(
                Ev::new("file_wide").str("v", v.name()).bytes("head", &head)
                    .raw("size", &format!("[{},{}]", size >> 16, size & 0xffff))
                    .raw("r", &outcome_json(&o)).meas(o.a, &o.p),
            );
        }
    }
}

/// Specification -> implementation: every complete reader script TLC explored in MCStreamReplay
/// is followed by a real reader against the real hash_stream; the outcome must be the one
/// Stream.tla assigns and the loop must make exactly one read call per answer.
pub fn replay(path: &str, out: &mut Out) -> u64 {
    use serde_json::Value;
    let text = std::fs::read_to_string(path).expect("replay file");
    let (mut bad, mut n) = (0u64, 0u64);
    for (ln, line) in text.lines().enumerate() {
        if line.trim().is_empty() {
            continue;
        }
        let j: Value = serde_json::from_str(line).expect("replay line is JSON");
        let v = variant(j["v"].as_str().unwrap());
        let mut content = Vec::new();
        let mut script = Vec::new();
        for a in j["script"].as_array().unwrap() {
            match a["k"].as_str().unwrap() {
                "ok" => {
                    let d: Vec<u8> = a["d"].as_array().unwrap().iter().map(|x| x.as_u64().unwrap() as u8).collect();
                    script.push(Step::Deliver(d.len()));
                    content.extend_from_slice(&d);
                }
                "lie" => script.push(Step::Lie(a["n"].as_u64().unwrap() as usize)),
                "int" => script.push(Step::Interrupt),
                "err" => script.push(Step::Error(match a["e"].as_str().unwrap() {
                    "UnexpectedEof" => ErrorKind::UnexpectedEof,
                    _ => ErrorKind::Other,
                })),
                "eof" => script.push(Step::Eof),
                _ => script.push(Step::Misreport(1)),
            }
        }
        let steps = script.len();
        let total = content.len();
        // a Deliver step on exhausted content would answer EOF: keep one spare byte so that it cannot happen
        content.push(0);
        let mut rd = ScriptReader { script, pos: 0, data: Content::Explicit(content), off: 0, log: Vec::new(), burst_left: 0, alt: (0, 0, true), alt_plain: false };
        let o = v.hash_stream(&mut rd);
        let got: Value = serde_json::from_str(&outcome_json(&o)).unwrap();
        let mut why: Vec<String> = Vec::new();
        if got != j["outcome"] {
            why.push(format!("outcome differs: {}", got));
        }
        if rd.pos != steps {
            why.push(format!("{} read calls for a script of {} answers", rd.pos, steps));
        }
        if rd.off != total {
            why.push("the reader was asked for a different amount of data".into());
        }
        n += 1;
        if !why.is_empty() {
            bad += 1;
            out.emit(Ev::new("replay_mismatch").num("line", ln as i64 + 1).str("why", &why.join("; ")).raw("step", line));
        }
    }
    out.emit(Ev::new("replay_done").num("steps", n as i64).num("mismatches", bad as i64));
    bad
}

/// C17: readers that claim bytes they never wrote (within the buffer): the library then hashes
/// what its buffer holds - zeros, or what earlier reads left there - never anything else.
fn run_lies(out: &mut Out, rng: &mut Rng, v: &dyn Var) {
    // dirty the heap first, so that a recycled allocation is not accidentally all zero
    let junk: Vec<Vec<u8>> = (0..8).map(|i| vec![0xA5u8 ^ i as u8; MIB]).collect();
    drop(junk);
    for (lead, lie, tail) in [(0usize, 200usize, 0usize), (0, 60, 80), (150, 100, 0), (150, 400, 60), (90, 30, 0)] {
        let mut script = Vec::new();
        if lead > 0 {
            script.push(Step::Deliver(lead));
        }
        script.push(Step::Lie(lie));
        if tail > 0 {
            script.push(Step::Deliver(tail));
        }
        script.push(Step::Eof);
        run_stream(out, v, Content::Explicit(rng.bytes(lead + tail)), script, false);
    }
}

/// C17: readers that claim more than the buffer holds.
pub fn run_misreport(out: &mut Out, rng: &mut Rng, only: Option<&str>) {
    for v in VARIANTS.iter() {
        if only.map_or(false, |o| o != v.name()) {
            continue;
        }
        run_lies(out, rng, *v);
        for extra in [1usize, MIB, 4 * MIB, usize::MAX / 2] {
            for lead in [0usize, 1] {
                let mut script = Vec::new();
                for _ in 0..lead {
                    script.push(Step::Deliver(100));
                }
                script.push(Step::Misreport(extra));
                script.push(Step::Eof);
                run_stream(out, *v, Content::Explicit(rng.bytes(300)), script, false);
            }
        }
    }
}
