//! Minimal NDJSON event writer (hand-rolled: the recorder only records).
use std::fmt::Write as _;
use std::io::Write;

pub struct Ev {
    s: String,
}

fn esc(out: &mut String, v: &str) {
    out.push('"');
    for c in v.chars() {
        match c {
            '"' => out.push_str("\\\""),
            '\\' => out.push_str("\\\\"),
            '\n' => out.push_str("\\n"),
            c if (c as u32) < 0x20 => {
                let _ = write!(out, "\\u{:04x}", c as u32);
            }
            c => out.push(c),
        }
    }
    out.push('"');
}

pub fn bytes_json(b: &[u8]) -> String {
    let mut s = String::with_capacity(b.len() * 4 + 2);
    s.push('[');
    for (i, x) in b.iter().enumerate() {
        if i > 0 {
            s.push(',');
        }
        let _ = write!(s, "{}", x);
    }
    s.push(']');
    s
}

pub fn u32s_json(b: &[u32]) -> String {
    let mut s = String::with_capacity(b.len() * 6 + 2);
    s.push('[');
    for (i, x) in b.iter().enumerate() {
        if i > 0 {
            s.push(',');
        }
        let _ = write!(s, "{}", x);
    }
    s.push(']');
    s
}

/// A 32-bit quantity as `[hi, lo]` (base 65536): TLC integers are 32-bit signed.
pub fn wide_json(x: u32) -> String {
    format!("[{},{}]", x >> 16, x & 0xffff)
}

pub fn wides_json(b: &[u32]) -> String {
    let mut s = String::with_capacity(b.len() * 14 + 2);
    s.push('[');
    for (i, x) in b.iter().enumerate() {
        if i > 0 {
            s.push(',');
        }
        let _ = write!(s, "[{},{}]", x >> 16, x & 0xffff);
    }
    s.push(']');
    s
}

/// `Option<u32>` as a wide; `None` is `[-1,-1]`.
pub fn opt_wide_json(x: Option<u32>) -> String {
    match x {
        Some(v) => wide_json(v),
        None => "[-1,-1]".to_string(),
    }
}

/// Result of an operation that yields a hash (as its byte image) or an error kind.
pub fn res_json(r: &Result<Vec<u8>, String>) -> String {
    match r {
        Ok(h) => format!("{{\"ok\":true,\"err\":\"\",\"h\":{}}}", bytes_json(h)),
        Err(e) => {
            let mut s = String::from("{\"ok\":false,\"err\":");
            esc(&mut s, e);
            s.push_str(",\"h\":[]}");
            s
        }
    }
}

impl Ev {
    pub fn new(kind: &str) -> Ev {
        let mut s = String::with_capacity(256);
        s.push_str("{\"e\":");
        esc(&mut s, kind);
        Ev { s }
    }
    pub fn raw(mut self, k: &str, json: &str) -> Ev {
        self.s.push(',');
        esc(&mut self.s, k);
        self.s.push(':');
        self.s.push_str(json);
        self
    }
    pub fn num(self, k: &str, v: i64) -> Ev {
        let j = v.to_string();
        self.raw(k, &j)
    }
    pub fn boolean(self, k: &str, v: bool) -> Ev {
        self.raw(k, if v { "true" } else { "false" })
    }
    pub fn str(mut self, k: &str, v: &str) -> Ev {
        self.s.push(',');
        esc(&mut self.s, k);
        self.s.push(':');
        esc(&mut self.s, v);
        self
    }
    pub fn bytes(self, k: &str, v: &[u8]) -> Ev {
        let j = bytes_json(v);
        self.raw(k, &j)
    }
    pub fn wide(self, k: &str, v: u32) -> Ev {
        let j = wide_json(v);
        self.raw(k, &j)
    }
    /// allocation count and panic message of the measured call(s)
    pub fn meas(self, allocs: u64, panic: &str) -> Ev {
        self.num("a", allocs as i64).str("p", panic)
    }
    pub fn finish(mut self) -> String {
        self.s.push('}');
        self.s
    }
}

pub struct Out {
    w: std::io::BufWriter<Box<dyn Write>>,
    pub n: u64,
}

impl Out {
    pub fn create(path: &str) -> Out {
        let w: Box<dyn Write> = if path == "-" {
            Box::new(std::io::stdout())
        } else {
            Box::new(std::fs::File::create(path).expect("create trace file"))
        };
        Out { w: std::io::BufWriter::with_capacity(1 << 20, w), n: 0 }
    }
    pub fn emit(&mut self, ev: Ev) {
        let line = ev.finish();
        self.w.write_all(line.as_bytes()).unwrap();
        self.w.write_all(b"\n").unwrap();
        self.n += 1;
    }
    /// a complete JSON object produced elsewhere (the scripted reader's log)
    pub fn emit_raw(&mut self, line: &str) {
        self.w.write_all(line.as_bytes()).unwrap();
        self.w.write_all(b"\n").unwrap();
        self.n += 1;
    }
    pub fn flush(&mut self) {
        self.w.flush().unwrap();
    }
}
