//! Deterministic PRNG (SplitMix64): everything random derives from VERIF_SEED.
#[derive(Clone)]
pub struct Rng(pub u64);

impl Rng {
    pub fn new(seed: u64) -> Rng {
        Rng(seed ^ 0x9e37_79b9_7f4a_7c15)
    }
    pub fn next(&mut self) -> u64 {
        self.0 = self.0.wrapping_add(0x9e37_79b9_7f4a_7c15);
        let mut z = self.0;
        z = (z ^ (z >> 30)).wrapping_mul(0xbf58_476d_1ce4_e5b9);
        z = (z ^ (z >> 27)).wrapping_mul(0x94d0_49bb_1331_11eb);
        z ^ (z >> 31)
    }
    pub fn below(&mut self, n: u64) -> u64 {
        if n == 0 {
            0
        } else {
            self.next() % n
        }
    }
    pub fn range(&mut self, lo: u64, hi_incl: u64) -> u64 {
        lo + self.below(hi_incl - lo + 1)
    }
    pub fn byte(&mut self) -> u8 {
        (self.next() >> 32) as u8
    }
    pub fn bytes(&mut self, n: usize) -> Vec<u8> {
        (0..n).map(|_| self.byte()).collect()
    }
    pub fn pick<'a, T>(&mut self, xs: &'a [T]) -> &'a T {
        &xs[self.below(xs.len() as u64) as usize]
    }
    pub fn chance(&mut self, num: u64, den: u64) -> bool {
        self.below(den) < num
    }
    pub fn fork(&mut self, tag: u64) -> Rng {
        Rng::new(self.next() ^ tag.wrapping_mul(0x1234_5678_9abc_def1))
    }
}
