//! vrec: the recorder (drives the real library, writes NDJSON traces) and
//! the replayer (steps TLC-generated behaviours through the real library).
mod alloc;
mod cpumask;
mod fam_codec;
mod fam_dispatch;
mod fam_dist;
mod fam_gen;
mod fam_len;
mod fam_misc;
#[cfg(feature = "serde")]
mod fam_serde;
mod fam_stream;
mod json;
mod replay;
mod rng;
mod variants;

#[global_allocator]
static GLOBAL: alloc::Counting = alloc::Counting;

use json::Out;
use rng::Rng;

struct Args {
    family: String,
    seed: u64,
    thorough: bool,
    out: String,
    variant: Option<String>,
    extra: Vec<String>,
}

fn parse_args() -> Args {
    let mut a = std::env::args().skip(1);
    let family = a.next().unwrap_or_else(|| usage());
    let mut r = Args { family, seed: 1, thorough: false, out: "-".into(), variant: None, extra: vec![] };
    while let Some(x) = a.next() {
        match x.as_str() {
            "--seed" => r.seed = a.next().unwrap().parse().expect("seed"),
            "--tier" => r.thorough = a.next().unwrap() == "thorough",
            "--out" => r.out = a.next().unwrap(),
            "--variant" => r.variant = Some(a.next().unwrap()),
            _ => r.extra.push(x),
        }
    }
    r
}

fn usage() -> ! {
    eprintln!("usage: vrec <family> [--seed N] [--tier quick|thorough] [--out PATH] [--variant V] [extra...]");
    std::process::exit(2)
}

fn main() {
    // Everything runs on a thread with a small stack (VREC_STACK_KB, default 384 KiB): library calls
    // that put large temporaries on the stack die here instead of going unnoticed on an 8 MiB main stack.
    // hide CPU features before anything in the process asks for them
    #[cfg(all(target_arch = "x86_64", target_os = "linux"))]
    if let Ok(mask) = std::env::var("VREC_CPU_MASK") {
        if !mask.is_empty() {
            if let Err(why) = cpumask::install(&mask) {
                eprintln!("CPUMASK-UNAVAILABLE: {}", why);
                std::process::exit(77);
            }
        }
    }
    let mut kb: usize = std::env::var("VREC_STACK_KB").ok().and_then(|x| x.parse().ok()).unwrap_or(384);
    // `--stack-kb=N` on the command line (used by the small-stack pass of C17) wins over the environment
    for a in std::env::args() {
        if let Some(v) = a.strip_prefix("--stack-kb=") {
            kb = v.parse().expect("stack size in KiB");
        }
    }
    let h = std::thread::Builder::new().stack_size(kb * 1024).spawn(real_main).expect("spawn");
    if h.join().is_err() {
        std::process::exit(101);
    }
}

fn real_main() {
    // panics in the code under test are data, not noise
    std::panic::set_hook(Box::new(|_| {}));
    let args = parse_args();
    let mut out = Out::create(&args.out);
    let mut rng = Rng::new(args.seed);
    let only = args.variant.as_deref();
    match args.family.as_str() {
        "c01" => fam_gen::run_c01(&mut out, &mut rng, args.thorough, only),
        "c03" => fam_gen::run_c03(&mut out, &mut rng, args.thorough, only),
        "c10" => fam_gen::run_c10(&mut out, &mut rng, args.thorough, only),
        "c11" => fam_gen::run_c11(&mut out, &mut rng, args.thorough, only),
        "replay" => {
            let bad = replay::run(args.extra.first().expect("replay file"), &mut out);
            out.flush();
            std::process::exit(if bad == 0 { 0 } else { 1 });
        }
        #[cfg(all(feature = "easy", feature = "std"))]
        "replay_stream" => {
            let bad = fam_stream::replay(args.extra.first().expect("replay file"), &mut out);
            out.flush();
            std::process::exit(if bad == 0 { 0 } else { 1 });
        }
        "replay_opts" => {
            let bad = fam_misc::replay_opts(
                args.extra.first().expect("replay file"),
                args.extra.get(1).expect("path for the trace of the fixed generators"),
                &mut out,
            );
            out.flush();
            std::process::exit(if bad == 0 { 0 } else { 1 });
        }
        "dispatch" => fam_dispatch::run(&mut out, args.seed),
        "contend" => fam_dispatch::run_n(&mut out, args.seed, if args.thorough { 400 } else { 60 }),
        "c11big" => fam_gen::run_c11big(&mut out, &mut rng, only, !args.extra.iter().any(|x| x == "--no-giant" || x == "--only-blocks"), !args.extra.iter().any(|x| x == "--only-giant" || x == "--only-blocks")),
        "misc" => fam_misc::run(&mut out, &mut rng, args.thorough),
        "agg" => fam_gen::run_agg(&mut out, &mut rng, args.thorough, only),
        "c02" => fam_dist::run_c02(&mut out, &mut rng, args.thorough, only),
        "c08" => fam_dist::run_c08(&mut out, &mut rng, args.thorough, only),
        "c04" => fam_codec::run_c04(&mut out, &mut rng, args.thorough, only),
        "c05" => fam_codec::run_c05(&mut out, &mut rng, args.thorough, only),
        "c06" => fam_codec::run_c06(&mut out, &mut rng, args.thorough, only),
        "c14" => fam_codec::run_c14(&mut out, &mut rng, args.thorough, only),
        "c15" => fam_codec::run_c15(&mut out, &mut rng, args.thorough, only),
        #[cfg(feature = "easy")]
        "c13" => fam_codec::run_c13(&mut out, &mut rng, args.thorough, only),
        #[cfg(all(feature = "easy", feature = "std"))]
        "c12" => fam_stream::run_c12(&mut out, &mut rng, args.thorough, only, !args.extra.iter().any(|x| x == "--no-interrupts")),
        #[cfg(all(feature = "easy", feature = "std"))]
        "c12big" => fam_stream::run_c12big(&mut out, &mut rng, only, args.thorough),
        #[cfg(all(feature = "easy", feature = "std"))]
        "manyreads" => fam_stream::run_many(&mut out, &mut rng, args.thorough, only),
        #[cfg(all(feature = "easy", feature = "std"))]
        "bigfile" => fam_stream::run_bigfile(&mut out, &mut rng, only, args.thorough),
        #[cfg(all(feature = "easy", feature = "std"))]
        "misreport" => fam_stream::run_misreport(&mut out, &mut rng, only),
        #[cfg(feature = "serde")]
        "c16" => fam_serde::run_c16(&mut out, &mut rng, args.thorough, only),
        "len_sweep" => fam_len::sweep(&mut out, 16),
        "len_codes" => fam_len::codes(&mut out),
        _ => usage(),
    }
    out.flush();
}
