//! Distance family (C02, C08): law bundles on whole hashes, 256x256 tables
//! through the public part accessors, and every body-distance back end
//! exhaustively per byte position against backgrounds.
use crate::fam_codec::image;
use crate::json::*;
use crate::rng::Rng;
use crate::variants::*;
use tlsh::verif::dist_body as hook;

#[repr(align(16))]
struct Al<const N: usize>([u8; N]);

pub const BACKENDS: [(u8, &str); 5] =
    [(0, "pseudo32"), (1, "pseudo64"), (2, "sse2"), (3, "sse4.1"), (4, "avx2")];

/// distance of two bodies through one back end (None: not in this build / CPU)
fn backend_dist(backend: u8, a: &[u8], b: &[u8]) -> Option<Obs<u32>> {
    match a.len() {
        12 => {
            let (x, y) = (Al::<12>(a.try_into().unwrap()), Al::<12>(b.try_into().unwrap()));
            hook::distance_12(backend, &x.0, &y.0)?;
            Some(obs(|| hook::distance_12(backend, &x.0, &y.0).unwrap()))
        }
        32 => {
            let (x, y) = (Al::<32>(a.try_into().unwrap()), Al::<32>(b.try_into().unwrap()));
            hook::distance_32(backend, &x.0, &y.0)?;
            Some(obs(|| hook::distance_32(backend, &x.0, &y.0).unwrap()))
        }
        64 => {
            let (x, y) = (Al::<64>(a.try_into().unwrap()), Al::<64>(b.try_into().unwrap()));
            hook::distance_64(backend, &x.0, &y.0)?;
            Some(obs(|| hook::distance_64(backend, &x.0, &y.0).unwrap()))
        }
        _ => None,
    }
}

fn variant_for_body(size: usize) -> &'static dyn Var {
    match size {
        12 => variant("Short"),
        32 => variant("Normal"),
        _ => variant("Long"),
    }
}

/// body distance through the public API (runtime-dispatched back end)
fn public_dist(a: &[u8], b: &[u8]) -> Obs<u32> {
    let v = variant_for_body(a.len());
    let mut ia = vec![0u8; v.size()];
    let mut ib = vec![0u8; v.size()];
    ia[v.ck_len() + 2..].copy_from_slice(a);
    ib[v.ck_len() + 2..].copy_from_slice(b);
    let (ha, hb) = (v.hash(&ia).unwrap(), v.hash(&ib).unwrap());
    ha.part_distances(hb.as_ref()).map(|p| p[0])
}

fn emit_body_matrix(out: &mut Out, bname: &str, backend: Option<u8>, a: &[u8], b: &[u8], pos: usize) -> bool {
    let mut m: Vec<u32> = Vec::with_capacity(65536);
    let mut panic = String::new();
    let (mut x, mut y) = (a.to_vec(), b.to_vec());
    for xv in 0..256usize {
        x[pos] = xv as u8;
        for yv in 0..256usize {
            y[pos] = yv as u8;
            let o = match backend {
                Some(k) => match backend_dist(k, &x, &y) {
                    Some(o) => o,
                    None => return false,
                },
                None => public_dist(&x, &y),
            };
            if !o.p.is_empty() && panic.is_empty() {
                panic = o.p.clone();
            }
            m.push(o.v.unwrap_or(u32::MAX >> 1));
        }
    }
    out.emit(
        Ev::new("bdist_matrix")
            .str("backend", bname)
            .num("size", a.len() as i64)
            .num("pos", pos as i64 + 1)
            .bytes("A", a)
            .bytes("B", b)
            .raw("m", &u32s_json(&m))
            .meas(0, &panic),
    );
    true
}

/// one `bdist` event per available back end, and one through the public (dispatched) path
fn emit_bdist_all(out: &mut Out, a: &[u8], b: &[u8]) {
    let o = public_dist(a, b);
    out.emit(Ev::new("bdist").str("backend", "public").bytes("A", a).bytes("B", b)
        .num("d", o.v.map(|x| x as i64).unwrap_or(-1)).meas(o.a, &o.p));
    for (id, name) in BACKENDS {
        if let Some(o) = backend_dist(id, a, b) {
            out.emit(Ev::new("bdist").str("backend", name).bytes("A", a).bytes("B", b)
                .num("d", o.v.map(|x| x as i64).unwrap_or(-1)).meas(o.a, &o.p));
        }
    }
}

fn backgrounds(rng: &mut Rng, n: usize, k: usize) -> (Vec<u8>, Vec<u8>) {
    match k % 5 {
        0 => (rng.bytes(n), rng.bytes(n)),
        1 => (vec![0u8; n], vec![0xffu8; n]),
        2 => (vec![0xffu8; n], vec![0xffu8; n]),
        3 => (vec![0x55u8; n], vec![0xaau8; n]),
        _ => (vec![0u8; n], vec![0u8; n]),
    }
}

pub fn run_c02(out: &mut Out, rng: &mut Rng, thorough: bool, only: Option<&str>) {
    // header tables through the public part accessors
    if only.map_or(true, |o| o == "Normal") {
        for part in ["q", "l", "ck"] {
            let v = variant("Normal");
            let idx = match part {
                "q" => v.ck_len() + 1,
                "l" => v.ck_len(),
                _ => 0,
            };
            let which = match part {
                "q" => 2,
                "l" => 3,
                _ => 1,
            };
            let mut m: Vec<u32> = Vec::with_capacity(65536);
            let hs: Vec<Box<dyn HashObj>> = (0..256usize)
                .map(|x| {
                    let mut i = vec![0u8; v.size()];
                    i[idx] = x as u8;
                    v.hash(&i)
                })
                .collect::<Option<Vec<_>>>()
                .unwrap_or_default();
            if hs.len() < 256 {
                continue; // strict build: not every header byte is constructible
            }
            let mut allocs = 0;
            let mut panic = String::new();
            for x in 0..256 {
                for y in 0..256 {
                    let o = hs[x].part_distances(hs[y].as_ref());
                    allocs += o.a;
                    if !o.p.is_empty() && panic.is_empty() {
                        panic = o.p.clone();
                    }
                    m.push(o.v.map(|p| p[which]).unwrap_or(u32::MAX >> 1));
                }
            }
            out.emit(Ev::new("dist_matrix").str("part", part).raw("m", &u32s_json(&m)).meas(allocs, &panic));
        }
    }
    // body distance per position, per back end
    for size in [12usize, 32, 64] {
        let v = variant_for_body(size);
        if only.map_or(false, |o| o != v.name()) {
            continue;
        }
        let pos: Vec<usize> = if thorough {
            (0..size).collect()
        } else {
            let mut p = vec![0, 3, 4, 7, 8, 11, 15, 16, 31, 32, 47, 48, size - 1];
            p.retain(|&i| i < size);
            p.sort();
            p.dedup();
            p
        };
        let mut k = 0;
        for &p in &pos {
            let (a, b) = backgrounds(rng, size, k);
            k += 1;
            emit_body_matrix(out, "public", None, &a, &b, p);
            for (id, name) in BACKENDS {
                // quick tier: rotate the explicit back ends over the positions
                if !thorough && (k + id as usize) % 2 == 0 {
                    continue;
                }
                emit_body_matrix(out, name, Some(id), &a, &b, p);
            }
        }
        // pairwise interaction: two byte positions changed by the same / different deltas
        let offs: Vec<usize> = if size == 64 && !thorough { vec![1, 2, 3, 4, 7, 8, 16, 32] } else { (1..size).collect() };
        for i in 0..size {
            for &o in &offs {
                let j = i + o;
                if j >= size {
                    continue;
                }
                let a = if (i + j) % 3 == 0 { vec![0u8; size] } else { rng.bytes(size) };
                let mut b = a.clone();
                let d = *rng.pick(&[0xffu8, 0x01, 0x55, 0xaa, 0x80, 0x03]);
                b[i] ^= d;
                b[j] ^= if rng.chance(2, 3) { d } else { rng.range(1, 255) as u8 };
                emit_bdist_all(out, &a, &b);
            }
        }
        // block structure: every aligned sub-block either equal, complemented or randomly different
        let gran = if size == 12 { 4 } else { 8 };
        let blocks = size / gran;
        for mask in 0..(1u32 << blocks) {
            if !thorough && blocks == 8 && mask.count_ones() != 1 && mask.count_ones() != 7 && mask % 5 != 0 && mask.count_ones() != 4 {
                continue;
            }
            for style in 0..2 {
                let a = rng.bytes(size);
                let mut b = a.clone();
                for k in 0..blocks {
                    if mask >> k & 1 == 1 {
                        for t in 0..gran {
                            let p = k * gran + t;
                            b[p] = if style == 0 { !a[p] } else { a[p] ^ (rng.range(1, 255) as u8) };
                        }
                    }
                }
                emit_bdist_all(out, &a, &b);
            }
        }
        // random whole bodies on every back end
        for _ in 0..(if thorough { 3000 } else { 150 }) {
            let (a, b) = (rng.bytes(size), rng.bytes(size));
            for (id, name) in BACKENDS {
                if let Some(o) = backend_dist(id, &a, &b) {
                    out.emit(
                        Ev::new("bdist").str("backend", name).bytes("A", &a).bytes("B", &b)
                            .num("d", o.v.map(|x| x as i64).unwrap_or(-1)).meas(o.a, &o.p),
                    );
                }
            }
        }
    }
    // whole hashes, both modes
    pairs(out, rng, if thorough { 2000 } else { 120 }, only);
}

fn emit_cmp(out: &mut Out, v: &dyn Var, ia: &[u8], ib: &[u8]) {
    let (a, b) = match (v.hash(ia), v.hash(ib)) {
        (Some(a), Some(b)) => (a, b),
        _ => return,
    };
    let mut allocs = 0;
    let mut panic = String::new();
    let mut get = |o: Obs<u32>| -> i64 {
        allocs += o.a;
        if !o.p.is_empty() && panic.is_empty() {
            panic = o.p.clone();
        }
        o.v.map(|x| x as i64).unwrap_or(-1)
    };
    let d_ab = get(a.compare(b.as_ref(), false));
    let d_ba = get(b.compare(a.as_ref(), false));
    let n_ab = get(a.compare(b.as_ref(), true));
    let n_ba = get(b.compare(a.as_ref(), true));
    let d_aa = get(a.compare(a.as_ref(), false));
    let d_bb = get(b.compare(b.as_ref(), false));
    let n_aa = get(a.compare(a.as_ref(), true));
    let d_cmp = get(a.compare_default(b.as_ref()));
    let max_def = get(v.max_distance(false));
    let max_nolen = get(v.max_distance(true));
    let parts = a.part_distances(b.as_ref());
    let pj = parts.v.map(|p| u32s_json(&p)).unwrap_or("[]".into());
    let (ca, cb) = (a.cleared().v.unwrap_or_default(), b.cleared().v.unwrap_or_default());
    let (d_clear, n_clear) = match (v.hash(&ca), v.hash(&cb)) {
        (Some(x), Some(y)) => (get(x.compare(y.as_ref(), false)), get(x.compare(y.as_ref(), true))),
        _ => (-1, -1),
    };
    out.emit(
        Ev::new("cmp")
            .str("v", v.name())
            .bytes("a1", ia)
            .bytes("b1", ib)
            .num("d_ab", d_ab)
            .num("d_ba", d_ba)
            .num("n_ab", n_ab)
            .num("n_ba", n_ba)
            .num("d_aa", d_aa)
            .num("d_bb", d_bb)
            .num("n_aa", n_aa)
            .num("d_cmp", d_cmp)
            .num("max_def", max_def)
            .num("max_nolen", max_nolen)
            .raw("parts", &pj)
            .num("d_clear", d_clear)
            .num("n_clear", n_clear)
            .meas(allocs + parts.a, &panic),
    );
}

fn pairs(out: &mut Out, rng: &mut Rng, n: usize, only: Option<&str>) {
    for v in VARIANTS.iter() {
        if only.map_or(false, |o| o != v.name()) {
            continue;
        }
        let size = v.size();
        // the specification's witness pair for max_distance, replayed (S -> I)
        let wa = vec![0u8; size];
        let mut wb = vec![0xffu8; size];
        for i in 0..v.ck_len() {
            wb[i] = 1;
        }
        wb[v.ck_len()] = 128;
        wb[v.ck_len() + 1] = 0x88;
        emit_cmp(out, *v, &wa, &wb);
        emit_cmp(out, *v, &wb, &wa);
        // two body positions changed by the same delta (cross-lane interaction; d = 0 only for equal hashes)
        let body0 = v.ck_len() + 2;
        let blen = size - body0;
        let offs: Vec<usize> = if blen <= 12 { (1..blen).collect() } else { vec![1, 2, 3, 4, 8, 16, 32] };
        for i in 0..blen {
            for &o in &offs {
                if i + o >= blen || (blen > 12 && (i + o) % 3 == 1 && n < 1000) {
                    continue;
                }
                let a = image(*v, rng);
                let mut b = a.clone();
                let d = *rng.pick(&[0xffu8, 0x01, 0x80, 0x33]);
                b[body0 + i] ^= d;
                b[body0 + i + o] ^= d;
                emit_cmp(out, *v, &a, &b);
            }
        }
        // two HEADER bytes changed by related deltas (+-1, +-16, 0x80, 0xff): fields packed with the wrong shift
        // make such pairs look alike
        if !crate::fam_codec::STRICT {
            let hdr = v.ck_len() + 2;
            let deltas = [1u8, 0xff, 16, 0xf0, 0x80, 0x0f];
            for i in 0..hdr {
                for j in (i + 1)..hdr {
                    for &d1 in deltas.iter() {
                        for &d2 in deltas.iter() {
                            if n < 1000 && (d1 == 0x0f || d2 == 0x0f) {
                                continue;
                            }
                            let a = image(*v, rng);
                            let mut b = a.clone();
                            b[i] = b[i].wrapping_add(d1);
                            b[j] = b[j].wrapping_add(d2);
                            emit_cmp(out, *v, &a, &b);
                        }
                    }
                }
            }
        }
        for i in 0..n {
            let a = image(*v, rng);
            let b = match i % 6 {
                0 => a.clone(),
                1 => {
                    // one dibit apart
                    let mut b = a.clone();
                    let p = rng.range((v.ck_len() + 2) as u64, size as u64 - 1) as usize;
                    b[p] ^= 1 << rng.below(8);
                    b
                }
                2 => {
                    // header byte apart
                    let mut b = a.clone();
                    let p = rng.below((v.ck_len() + 2) as u64) as usize;
                    b[p] = b[p].wrapping_add(rng.range(1, 255) as u8);
                    if crate::fam_codec::STRICT {
                        image(*v, rng)
                    } else {
                        b
                    }
                }
                3 => {
                    // complement of the body
                    let mut b = a.clone();
                    for x in b.iter_mut().skip(v.ck_len() + 2) {
                        *x = !*x;
                    }
                    b
                }
                _ => image(*v, rng),
            };
            emit_cmp(out, *v, &a, &b);
        }
    }
}

pub fn run_c08(out: &mut Out, rng: &mut Rng, thorough: bool, only: Option<&str>) {
    // the process's first comparison is of a *different* body size than the variant under test
    // (family c02 has the same-size-first order): lazily resolved back ends must not depend on call order
    if let Some(name) = only {
        let body = |v: &&dyn Var| v.size() - v.ck_len() - 2;
        let me = VARIANTS.iter().find(|v| v.name() == name).map(|v| body(v));
        let mut sizes: Vec<usize> = VARIANTS.iter().map(|v| body(v)).filter(|b| Some(*b) != me).collect();
        sizes.sort();
        sizes.dedup();
        for b in sizes.into_iter().rev() {
            let o = *VARIANTS.iter().find(|v| body(v) == b).unwrap();
            let (x, y) = (image(o, rng), image(o, rng));
            emit_cmp(out, o, &x, &y);
        }
    }
    pairs(out, rng, if thorough { 3000 } else { 250 }, only);
}
