#!/usr/bin/env python3
"""Shared machinery of /verif/bin/vcheck: building the recorder in every
configuration of the matrix, recording traces, running TLC (trace validation
and model checking), evidence and known findings."""
import concurrent.futures as cf
import hashlib
import json
import os
import re
import shutil
import subprocess
import sys
import time

VERIF = os.path.dirname(os.path.dirname(os.path.abspath(__file__)))
REPO = "/repo"
WORK = os.path.join(VERIF, "work")
SPEC = os.path.join(VERIF, "spec")
HARNESS = os.path.join(VERIF, "harness")
EVID = os.path.join(VERIF, "evidence")
REPLAYS = os.path.join(VERIF, "replays")
TLC = os.path.join(VERIF, "bin", "tlc.sh")

BASE_RUSTFLAGS = "--cfg fast_tlsh_verif --check-cfg cfg(fast_tlsh_verif)"

# ----------------------------------------------------------------------------
# Build matrix (DESIGN.md section 9).  `feat` are harness features; library
# features are forwarded as tlsh/<feature>.
NAIVE = "easy std"
CONFIGS = {
    "default": dict(feat="easy std tlsh/opt-default tlsh/simd tlsh/detect-features"),
    "default-unsafe": dict(feat="easy std tlsh/opt-default tlsh/simd tlsh/detect-features tlsh/unsafe"),
    "naive": dict(feat=NAIVE),
    "opt-default": dict(feat=NAIVE + " tlsh/opt-default"),
    "embedded": dict(feat=NAIVE + " tlsh/opt-embedded-default"),
    "lowmem-half": dict(feat=NAIVE + " tlsh/opt-low-memory-buckets tlsh/opt-low-memory-hex-str-decode-half-table tlsh/opt-low-memory-hex-str-encode-half-table"),
    "lowmem-quarter": dict(feat=NAIVE + " tlsh/opt-low-memory-hex-str-decode-quarter-table tlsh/opt-low-memory-hex-str-encode-min-table"),
    "lowmem-min": dict(feat=NAIVE + " tlsh/opt-low-memory-hex-str-decode-min-table"),
    "simd-static-sse2": dict(feat=NAIVE + " tlsh/simd"),
    "simd-static-ssse3": dict(feat=NAIVE + " tlsh/simd", rustflags="-C target-feature=+ssse3"),
    "simd-static-sse41": dict(feat=NAIVE + " tlsh/simd", rustflags="-C target-feature=+sse4.1"),
    "simd-static-avx2": dict(feat=NAIVE + " tlsh/simd", rustflags="-C target-feature=+avx2"),
    "naive-unsafe": dict(feat=NAIVE + " tlsh/unsafe"),
    # `-C target-cpu=native` (the documented fastest build): AVX-512, LZCNT, BMI ... statically on
    "default-native": dict(feat="easy std tlsh/opt-default tlsh/simd tlsh/detect-features", rustflags="-C target-cpu=native"),
    "simd-static-native": dict(feat=NAIVE + " tlsh/simd", rustflags="-C target-cpu=native"),
    "nostd": dict(feat=""),
    # the library with neither std nor alloc, statically selected SIMD back ends
    "nostd-simd-sse2": dict(feat="tlsh/simd"),
    "nostd-simd-ssse3": dict(feat="tlsh/simd", rustflags="-C target-feature=+ssse3"),
    "nostd-simd-sse41": dict(feat="tlsh/simd", rustflags="-C target-feature=+sse4.1"),
    "nostd-simd-avx2": dict(feat="tlsh/simd", rustflags="-C target-feature=+avx2"),
    # the library without std (and without alloc) but WITH serde; the same with alloc only
    # no std, shared-scratch style options: low-memory buckets with the `unsafe` feature
    "nostd-lowmem-unsafe": dict(feat="tlsh/opt-default tlsh/opt-low-memory-buckets tlsh/unsafe"),
    "nostd-serde": dict(feat="serde"),
    "nostd-serde-buffered": dict(feat="serde tlsh/serde-buffered tlsh/alloc"),
    # feature interactions: combinations no single-purpose configuration above has
    "mix-a": dict(feat="easy std tlsh/simd tlsh/detect-features tlsh/opt-embedded-default tlsh/opt-low-memory-buckets "
                       "tlsh/opt-low-memory-hex-str-decode-quarter-table"),
    "mix-b": dict(feat="easy std tlsh/simd tlsh/unsafe tlsh/opt-pearson-table-double tlsh/opt-dist-qratios-table "
                       "tlsh/opt-low-memory-hex-str-encode-min-table tlsh/opt-low-memory-hex-str-decode-half-table",
                  rustflags="-C target-feature=+avx2"),
    "mix-c": dict(feat="easy std tlsh/opt-simd-body-comparison tlsh/simd-per-arch tlsh/opt-dist-length-table "
                       "tlsh/opt-low-memory-buckets tlsh/opt-low-memory-hex-str-decode-min-table "
                       "tlsh/opt-low-memory-hex-str-encode-half-table", rustflags="-C target-feature=+sse4.1"),
    "strict": dict(feat="easy std strict tlsh/opt-default tlsh/simd tlsh/detect-features"),
    # the strict parser without any SIMD / table option: the pair (strict, strict-naive) must agree byte for byte (C07)
    "strict-naive": dict(feat=NAIVE + " strict"),
    # ... and with the reduced bucket arrays (constants shared between the generator and the validity checks)
    "strict-lowmem": dict(feat=NAIVE + " strict tlsh/opt-low-memory-buckets"),
    "serde": dict(feat="easy std serde tlsh/opt-default tlsh/simd tlsh/detect-features"),
    "serde-strict": dict(feat="easy std serde strict tlsh/opt-default tlsh/simd tlsh/detect-features"),
    "serde-buffered-strict": dict(feat="easy std serde strict tlsh/serde-buffered tlsh/opt-default tlsh/simd tlsh/detect-features"),
}
HEXSIMD = {"default-native", "simd-static-native", "mix-a", "mix-b", "nostd-simd-sse2", "nostd-simd-ssse3", "nostd-simd-sse41", "nostd-simd-avx2", "default", "default-unsafe", "simd-static-sse2", "simd-static-ssse3", "simd-static-sse41",
           "simd-static-avx2", "strict", "serde", "serde-strict", "serde-buffered-strict"}
for _n, _c in CONFIGS.items():
    if _n in HEXSIMD:
        _c["feat"] += " hexsimd-parse hexsimd-convert"
# the configurations whose results must be bit-identical (C07)
MATRIX = ["default", "default-unsafe", "naive", "opt-default", "embedded", "lowmem-half", "lowmem-quarter",
          "lowmem-min", "simd-static-sse2", "simd-static-ssse3", "simd-static-sse41", "simd-static-avx2",
          "naive-unsafe", "nostd", "mix-a", "mix-b", "mix-c", "default-native", "simd-static-native", "nostd-lowmem-unsafe"]


class ToolError(Exception):
    """Something in the machinery failed (exit 2, never a VIOLATION)."""


def log(*a):
    print(*a, file=sys.stderr, flush=True)


def sh(cmd, **kw):
    return subprocess.run(cmd, stdout=subprocess.PIPE, stderr=subprocess.STDOUT, text=True, **kw)


# Pseudo-configurations "<cfg>@<mask>": the binary of <cfg> run with CPU features hidden from CPUID
# (harness/src/cpumask.rs), so that every runtime-dispatch arm is exercised on this one machine.
CPU_MASKS = {"noavx2": "avx2", "sse2only": "avx2,sse4.1,ssse3"}


def base_cfg(cfg):
    return cfg.split("@")[0]


def mask_of(cfg):
    return CPU_MASKS.get(cfg.split("@")[1], "") if "@" in cfg else ""


def env_knobs():
    """Names of environment variables the library source reads at run time (std::env::var / var_os): the
    pseudo-configuration "<cfg>@env" runs the binary of <cfg> with each of them set (to "1")."""
    names = set()
    src = os.path.join(REPO, "fast-tlsh", "src")
    pat = re.compile(r'env::var(?:_os)?\s*\(\s*"([A-Za-z_][A-Za-z0-9_]*)"')
    for root, _, files in os.walk(src):
        for f in files:
            if f.endswith(".rs"):
                try:
                    names.update(pat.findall(open(os.path.join(root, f), errors="replace").read()))
                except OSError:
                    pass
    return sorted(names)


def env_cfgs(base):
    return [base + "@env"] if env_knobs() else []


def binary(cfg, profile="checked"):
    return os.path.join(WORK, "target", base_cfg(cfg), profile, "vrec")


def build_one(cfg, profile="checked", jobs=4):
    c = CONFIGS[cfg]
    env = dict(os.environ)
    env["RUSTFLAGS"] = BASE_RUSTFLAGS + (" " + c["rustflags"] if c.get("rustflags") else "")
    env["CARGO_NET_OFFLINE"] = "true"
    tdir = os.path.join(WORK, "target", cfg)
    cmd = ["cargo", "build", "--offline", "--profile", profile, "-j", str(jobs), "--target-dir", tdir]
    if c["feat"].strip():
        cmd += ["--features", c["feat"]]
    t0 = time.time()
    r = sh(cmd, cwd=HARNESS, env=env)
    return cfg, profile, r.returncode == 0, r.stdout, time.time() - t0


def build(cfgs, profile="checked", parallel=6):
    """Build the recorder for every listed configuration from /repo's current
    working tree.  Returns {cfg: (ok, output)}."""
    os.makedirs(os.path.join(WORK, "target"), exist_ok=True)
    res = {}
    bases = sorted(set(base_cfg(c) for c in cfgs))
    jobs = max(2, 16 // max(1, min(parallel, len(bases))))
    with cf.ThreadPoolExecutor(max_workers=parallel) as ex:
        for cfg, prof, ok, out, dt in ex.map(lambda c: build_one(c, profile, jobs), bases):
            res[cfg] = (ok, out)
            log("  build %-24s %-8s %s (%.1fs)" % (cfg, prof, "ok" if ok else "FAILED", dt))
    for c in cfgs:
        res[c] = res[base_cfg(c)]
    return res


def built_record_path():
    return os.path.join(WORK, "built.json")


def load_built():
    try:
        return json.load(open(built_record_path()))
    except Exception:
        return {}


def save_built(d):
    os.makedirs(WORK, exist_ok=True)
    json.dump(d, open(built_record_path(), "w"), indent=1)


# ----------------------------------------------------------------------------
# Recording

class MaskUnavailable(Exception):
    """CPU feature masking (CPUID faulting) does not work on this machine: the pseudo-configuration is skipped."""


class Crash(Exception):
    def __init__(self, cmd, rc, out):
        self.cmd, self.rc, self.out = cmd, rc, out


def record(cfg, family, out_path, seed, tier, variant=None, extra=(), profile="checked", timeout=900):
    os.makedirs(os.path.dirname(out_path), exist_ok=True)
    cmd = [binary(cfg, profile), family, "--seed", str(seed), "--tier", tier, "--out", out_path]
    if variant:
        cmd += ["--variant", variant]
    cmd += list(extra)
    env = dict(os.environ)
    if mask_of(cfg):
        env["VREC_CPU_MASK"] = mask_of(cfg)
    if cfg.endswith("@env"):
        for k in env_knobs():
            env[k] = "1"
    try:
        r = sh(cmd, timeout=timeout, env=env)
    except subprocess.TimeoutExpired:
        raise ToolError("recorder timed out: " + " ".join(cmd))
    if r.returncode == 77 and "CPUMASK-UNAVAILABLE" in r.stdout:
        raise MaskUnavailable(r.stdout.strip()[-200:])
    if r.returncode != 0:
        # a death of the process inside a library call is an observation, not a tool error
        raise Crash(cmd, r.returncode, r.stdout[-4000:])
    return cmd


# ----------------------------------------------------------------------------
# TLC

TLC_ENV_TRACE = {"TLC_GC": "-XX:+UseSerialGC", "TLC_HEAP": "-Xmx3g",
                 "TLC_JAVA_OPTS": "-Dtlc2.tool.queue.IStateQueue=StateDeque"}

RE_STATES = re.compile(r"(\d+) states generated, (\d+) distinct states found")
RE_REJ = re.compile(r"TRACE-REJECTED at line\", (\d+), \"of\", (\d+)")


def tlc_trace(module, trace_path, tag, timeout=3000, cfgfile=None, strict=False):
    """Validate one recorded trace against a trace specification.
    Returns dict(accepted, line, total, states, out)."""
    meta = os.path.join(WORK, "tlc", tag)
    shutil.rmtree(meta, ignore_errors=True)
    os.makedirs(meta, exist_ok=True)
    env = dict(os.environ)
    env.update(TLC_ENV_TRACE)
    env["TRACE"] = trace_path
    env["STRICT"] = "1" if strict else "0"
    cmd = [TLC, "-workers", "1", "-metadir", meta, "-cleanup", "-noGenerateSpecTE",
           "-config", cfgfile or (module + ".cfg"), module + ".tla"]
    t0 = time.time()
    try:
        r = sh(cmd, cwd=SPEC, env=env, timeout=timeout)
    except subprocess.TimeoutExpired:
        raise ToolError("TLC timed out validating " + trace_path)
    out = r.stdout
    shutil.rmtree(meta, ignore_errors=True)
    m = RE_STATES.search(out)
    states = int(m.group(1)) if m else 0
    rej = RE_REJ.search(out)
    nlines = sum(1 for _ in open(trace_path))
    if "Model checking completed. No error has been found." in out and not rej:
        if states != nlines + 1:
            raise ToolError("TLC accepted but state count %d != lines+1 %d\n%s" % (states, nlines + 1, out[-2000:]))
        return dict(accepted=True, line=None, total=nlines, states=states, out=out, wall=time.time() - t0)
    if rej:
        return dict(accepted=False, line=int(rej.group(1)), total=int(rej.group(2)), states=states, out=out,
                    wall=time.time() - t0)
    # An evaluation error while judging an event (the implementation returned something the
    # specification's operators are not even defined on, e.g. a hash of the wrong size) is a
    # rejection of that event: TLC prints the behaviour up to the state whose successor failed,
    # and state k is "k - 1 lines consumed", so the event being judged is line k.
    ks = [int(x) for x in re.findall(r"^State (\d+):", out, re.M)]
    if ks and ("The behavior up to this point is" in out) and ("Parsing or semantic analysis failed" not in out):
        k = max(ks)
        if 1 <= k <= nlines:
            return dict(accepted=False, line=k, total=nlines, states=max(states, k), out=out,
                        wall=time.time() - t0, evalerror=True)
    raise ToolError("TLC failed on %s (%s):\n%s" % (trace_path, module, out[-3000:]))


RE_COV_ACTION = re.compile(r"^<(\w+) line \d+, col \d+ to line \d+, col \d+ of module (\w+)(?: \([\d ]+\))?>: (\d+):(\d+)", re.M)


def tlc_mc(module, cfgfile, tag, workers=8, timeout=3600, extra=(), heap="-Xmx12g", coverage=True):
    """Model check a configuration.  Returns dict(ok, states, distinct, out, actions)."""
    meta = os.path.join(WORK, "tlc", tag)
    shutil.rmtree(meta, ignore_errors=True)
    os.makedirs(meta, exist_ok=True)
    env = dict(os.environ)
    env["TLC_HEAP"] = heap
    cmd = [TLC, "-workers", str(workers), "-metadir", meta, "-cleanup", "-noGenerateSpecTE"]
    if coverage:
        cmd += ["-coverage", "1"]
    cmd += ["-config", cfgfile, module + ".tla"] + list(extra)
    t0 = time.time()
    try:
        r = sh(cmd, cwd=SPEC, env=env, timeout=timeout)
    except subprocess.TimeoutExpired:
        raise ToolError("TLC timed out model checking " + cfgfile)
    out = r.stdout
    shutil.rmtree(meta, ignore_errors=True)
    ms = RE_STATES.findall(out)
    states, distinct = (int(ms[-1][0]), int(ms[-1][1])) if ms else (0, 0)
    ok = "Model checking completed. No error has been found." in out
    violated = ("is violated" in out) or ("Invariant" in out and "violated" in out) or ("Deadlock reached" in out) \
        or ("Temporal properties were violated" in out)
    actions = {}
    # coverage lines read `<Action ...>: <distinct states found>:<states generated>`; an action was
    # taken iff it generated states (the first number can be 0 when another action found them first)
    for name, mod, found, generated in RE_COV_ACTION.findall(out):
        actions[name] = actions.get(name, 0) + int(generated)
    if not ok and not violated:
        raise ToolError("TLC error in %s:\n%s" % (cfgfile, out[-3000:]))
    return dict(ok=ok, states=states, distinct=distinct, out=out, actions=actions, wall=time.time() - t0)


def make_cfg(base, name, subst):
    """A variant of spec/<base>.cfg with some `Key = value` / `Key <- Def` lines replaced; written under work/cfg."""
    text = open(os.path.join(SPEC, base + ".cfg")).read()
    for k, v in subst.items():
        text, n = re.subn(r"(?m)^(\s*)%s\s*(=|<-).*$" % re.escape(k), lambda m: "%s%s %s" % (m.group(1), k, v), text)
        if n != 1:
            raise ToolError("make_cfg: key %s not found once in %s.cfg" % (k, base))
    d = os.path.join(WORK, "cfg")
    os.makedirs(d, exist_ok=True)
    path = os.path.join(d, name + ".cfg")
    open(path, "w").write(text)
    return path


def run_parallel(fn, items, workers):
    with cf.ThreadPoolExecutor(max_workers=workers) as ex:
        return list(ex.map(fn, items))


# ----------------------------------------------------------------------------
# Results, evidence, known findings

class Result:
    def __init__(self, pid, tier, seed, level):
        self.pid, self.tier, self.seed, self.level = pid, tier, seed, level
        self.t0 = time.time()
        self.violations = []      # (description, replay_path, key)
        self.cov = {"states": 0, "transitions": 0, "traces_validated_against_impl": 0, "samples": [],
                    "evaluations": 0, "distinct_nontrivial": 0, "rule": "", "exhaustive": False,
                    "model_checking_runs": [], "trace_runs": [], "configurations": [], "skipped": []}
        self.assumptions = []
        self._distinct = set()

    def add_trace_run(self, name, res, trace_path, nontrivial_rule=None):
        self.cov["states"] += res["states"]
        self.cov["transitions"] += max(0, res["states"] - 1)
        self.cov["traces_validated_against_impl"] += 1
        self.cov["trace_runs"].append(dict(trace=name, events=res["total"], accepted=res["accepted"],
                                           wall_s=round(res["wall"], 1)))
        # distinct non-trivial events: by content hash, non-trivial = not a bare constructor event
        n = 0
        with open(trace_path) as f:
            for i, line in enumerate(f):
                n += 1
                if '"e":"gen_new"' in line:
                    continue
                h = hashlib.sha1(line.encode()).digest()[:8]
                self._distinct.add(h)
                if len(self.cov["samples"]) < 3 and i in (1, 2, 7):
                    self.cov["samples"].append(line.strip()[:600])
        self.cov["evaluations"] += n
        self.cov["distinct_nontrivial"] = len(self._distinct)

    def add_mc_run(self, name, res, constants=""):
        self.cov["states"] += res["distinct"]
        self.cov["transitions"] += res["states"]
        self.cov["model_checking_runs"].append(dict(config=name, generated=res["states"], distinct=res["distinct"],
                                                     ok=res["ok"], constants=constants,
                                                     actions=res.get("actions", {}), wall_s=round(res["wall"], 1)))

    def violation(self, desc, replay, key=None):
        self.violations.append((desc, replay, key or desc))


def write_replay(pid, name, payload, trace_path=None):
    d = os.path.join(REPLAYS, pid)
    os.makedirs(d, exist_ok=True)
    p = os.path.join(d, name + ".json")
    if trace_path and os.path.exists(trace_path):
        tp = os.path.join(d, name + ".ndjson")
        shutil.copyfile(trace_path, tp)
        payload["trace"] = tp
    json.dump(payload, open(p, "w"), indent=1)
    return p


def load_known():
    p = os.path.join(VERIF, "known_findings.json")
    try:
        return json.load(open(p))
    except FileNotFoundError:
        return {"findings": [], "fixed": []}


def finish(res, extra_cov=None):
    """Write evidence, print KNOWN-FINDING / VIOLATION lines, return exit code."""
    known = load_known()
    listed = {(k["property"], k["key"]): k for k in known.get("findings", [])}
    real = []
    for desc, replay, key in res.violations:
        k = listed.get((res.pid, key))
        if k:
            print("KNOWN-FINDING: property=%s %s" % (res.pid, k["what"]))
        else:
            real.append((desc, replay))
    cov = res.cov
    if extra_cov:
        cov.update(extra_cov)
    if not cov["samples"]:
        cov["samples"] = ["(no sample recorded)"]
    ev = {"property_id": res.pid, "tier": res.tier, "seed": res.seed, "level": res.level, "coverage": cov,
          "assumptions": res.assumptions, "wall_s": round(time.time() - res.t0, 1), "violations": len(real)}
    os.makedirs(EVID, exist_ok=True)
    json.dump(ev, open(os.path.join(EVID, res.pid + ".json"), "w"), indent=1)
    for desc, replay in real:
        log("  violation: " + desc)
        print("VIOLATION property=%s replay=%s" % (res.pid, replay))
    sys.stdout.flush()
    return 1 if real else 0
