#!/bin/sh
# TLC with a large stack on every thread (ASSUMEs run on the main thread).
exec java -Xss1g -XX:+UseParallelGC ${TLC_JAVA_OPTS} -cp /opt/veriftools/tla/tla2tools.jar:/opt/veriftools/tla/CommunityModules-deps.jar tlc2.TLC "$@"
