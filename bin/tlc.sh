#!/bin/sh
# TLC with a large stack on every thread (ASSUMEs run on the main thread).
# TLC_GC / TLC_HEAP / TLC_JAVA_OPTS may be overridden by the driver.
exec java -Xss1g ${TLC_GC:--XX:+UseParallelGC} ${TLC_HEAP:--Xmx8g} ${TLC_JAVA_OPTS} -cp /opt/veriftools/tla/tla2tools.jar:/opt/veriftools/tla/CommunityModules-deps.jar tlc2.TLC "$@"
