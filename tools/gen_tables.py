#!/usr/bin/env python3
"""One-off generator for the pinned constant tables of the specification.

Reads the tables of the PINNED commit (3c5a288) of fast-tlsh and writes
spec/Tables.tla.  The output is committed; the specification never reads
/repo.  Re-running this against a modified /repo is NOT part of any check:
the committed copy is the reference (see DESIGN.md, C09 "Trust").
"""
import re, sys
src = sys.argv[1] if len(sys.argv) > 1 else "/repo/fast-tlsh/src"
p = open(src + "/pearson.rs").read()
m = re.search(r"pub const SUBST_TABLE: \[u8; 256\] = \[(.*?)\];", p, re.S)
tab = [int(x, 16) for x in re.findall(r"0x([0-9a-f]{2})", m.group(1))]
assert len(tab) == 256 and sorted(tab) == list(range(256))
l = open(src + "/length.rs").read()
m = re.search(r"const TOP_VALUE_BY_ENCODING: \[u32; ENCODED_VALUE_SIZE\] = \[(.*?)\];", l, re.S)
body = re.sub(r"//.*", "", m.group(1))
top = [int(x) for x in re.findall(r"\d+", body)]
assert len(top) == 170 and top[-1] == 4224281216
def wrap(items, n=16, ind="    "):
    out = []
    for i in range(0, len(items), n):
        out.append(ind + ", ".join(items[i:i+n]))
    return ",\n".join(out)
with open("/verif/spec/Tables.tla", "w") as f:
    f.write("------------------------------- MODULE Tables -------------------------------\n")
    f.write("(* Pinned constant tables (generated once by tools/gen_tables.py from the     *)\n")
    f.write("(* pinned commit; this copy is the reference from then on).                   *)\n")
    f.write("\n\\* Pearson substitution table of TLSH (index 0 first).\n")
    f.write("PearsonTable == <<\n" + wrap([str(x) for x in tab]) + "\n>>\n")
    f.write("\n\\* The same table as limb pairs <<hi, lo>> in base 65536 (for TLC, W = 32).\n")
    f.write("TopLimbs32 == <<\n" + wrap(["<<%d,%d>>" % (x >> 16, x & 0xffff) for x in top], 8) + "\n>>\n")
    f.write("\n=============================================================================\n")
with open("/verif/spec/TablesDecimal.tla", "w") as f:
    f.write("--------------------------- MODULE TablesDecimal ---------------------------\n")
    f.write("(* The length table in decimal, for Apalache (unbounded integers) and humans. *)\n")
    f.write("(* TLC cannot load this module: it has literals above 2^31.                   *)\n")
    f.write("\n\\* @type: Seq(Int);\n")
    f.write("TopDecimal == <<\n" + wrap([str(x) for x in top], 8) + "\n>>\n")
    f.write("\n\\* @type: Seq(<<Int, Int>>);\n")
    f.write("TopLimbs32 == <<\n" + wrap(["<<%d,%d>>" % (x >> 16, x & 0xffff) for x in top], 8) + "\n>>\n")
    f.write("\n=============================================================================\n")
