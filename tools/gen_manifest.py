#!/usr/bin/env python3
"""Writes /verif/MANIFEST.json from the table below (kept next to the driver so
that the manifest, the driver and DESIGN.md cannot drift apart silently)."""
import json, subprocess, os
V = "/verif"
props = [json.loads(l) for l in open(V + "/properties.jsonl")]
ids = [p["id"] for p in props]

MC = "model_checking"
CHECKS = {
 "C01": (MC, "TLA+ reference semantics (Reference.tla, F32.tla, LengthCode.tla; published vectors reproduced by TLC) + TLC trace validation of recorded generator events incl. injected multi-GiB states (TraceGen.tla) + TLC small-scope model MCGenChunk replayed into the code",
         "Every finalize result (all 32 option sets) of the real generator on recorded inputs and injected states is judged by TLC against the declarative reference; exhaustive per stage and per small scope, sampled over whole inputs.", "6 C01"),
 "C02": (MC, "Distance.tla executed by TLC on recorded 256x256 tables, per-position 65 536-cell body-distance matrices for every back end, and whole-hash pairs (TraceHash.tla); MCDistance small-scope laws",
         "Header parts exhaustively (256x256), body exhaustively per byte position against backgrounds for every compiled back end, whole hashes sampled.", "6 C02"),
 "C03": (MC, "Generator.tla state machine vs Reference.tla abstraction: TLC model check (every chunking/clone/finalize interleaving in small scope, MCGenChunk), behaviours replayed into the real generator, and TLC trace validation of random histories with full state export",
         "Exhaustive over histories up to the small-scope bound; recorded histories validated step by step beyond it.", "6 C03"),
 "C04": (MC, "HashCodec.tla (ToHex / ParseHex) executed by TLC on recorded formatting and parsing events incl. byte-position sweeps (TraceHash.tla); MCCodec round-trip laws on toy variants",
         "Round trip and canonical form judged on every recorded event; exhaustive per byte position, sampled over whole values.", "6 C04"),
 "C05": (MC, "HashCodec.tla acceptance predicate and applicable-error sets executed by TLC on recorded parser events (all lengths, position sweeps over all 256 byte values, double faults, decoder tables) (TraceHash.tla); MCCodec",
         "Acceptance iff well-formed, value, error applicability and absence of panics judged per event.", "6 C05"),
 "C06": (MC, "HashCodec.tla byte-image layout and accessors executed by TLC on recorded conversions / accessors / quartile / clear_checksum events (TraceHash.tla)",
         "All slice lengths, header-field sweeps and accessor bundles judged per event.", "6 C06"),
 "C07": (MC, "the specification is a function on every recorded event, so one reference transcript validated by TLC (TraceGen / TraceHash) plus byte-identical transcripts of a fixed seeded corpus across the 14-configuration matrix decides configuration independence; per-back-end hook events validated by TLC; Dispatch.tla model checked for every interleaving of first calls (MCDispatch) and raced first calls of fresh processes validated by TraceDispatch.tla",
         "All stable x86_64 configurations of the matrix; schedules: exhaustive in the model, OS-produced over N process starts in the implementation.", "6 C07"),
 "C08": (MC, "Distance.tla laws checked by TLC on recorded law bundles (TraceHash.tla) and exhaustively on toy variants (MCDistance); the specification's max-distance witness replayed into the code",
         "Laws are checked both as equalities with the specification's distance and relationally between observed values.", "6 C08"),
 "C09": (MC, "LengthCode.tla on the pinned table: TLC model check of the table laws (MCLengthCode), Apalache over unbounded integers for symbolic lengths (LengthCodeApa), and TLC trace validation of the exhaustive native sweep of all 2^32 lengths compressed to 171 runs plus all 256 raw codes (TraceLen.tla)",
         "Exhaustive over the whole 32-bit domain (run-length compressed observation judged run by run); table laws proved for symbolic lengths by SMT.", "6 C09"),
 "C10": (MC, "Reference.tla finalisation lattice: TLC model MCFinalizeLattice (all option pairs on arbitrary small states) + MCOptions (every builder-call history, replayed into the real GeneratorOptions) + TLC trace validation of 32-option fans at the published limits (TraceGen.tla) + hash_file on sparse files of exactly MAX bytes (TraceStream.tla)",
         "Every recorded fan is checked against the reference, the permissiveness lattice and the exact length-error condition.", "6 C10"),
 "C11": (MC, "Generator.tla at narrow counter width W=6 (MCGenLimit: every history across MAX, 2^W-4, 2^W) + TLC trace validation at W=32 from injected states next to the three real boundaries (TraceGen.tla)",
         "Small-scope exhaustive for the counter logic; real-width traces for the boundaries themselves.", "6 C11"),
 "C12": (MC, "Stream.tla read-loop state machine: TLC model check of every reader script in small scope incl. liveness (MCStream) + every reader script of MCStreamReplay run against the real hash_stream + TLC trace validation of every read call made by hash_stream against scripted readers and of hash_file (TraceStream.tla; multi-MiB content through the closed form GenUpdatePeriodic, itself model checked against byte-by-byte stepping)",
         "Every logged read call and the returned value must be a behaviour of Stream.tla; small scope exhaustive, real buffer sizes by traces.", "6 C12"),
 "C13": (MC, "EasyCompare semantics (parse left, then right, side tag) in TraceHash.tla judged by TLC on recorded compare / compare_with events over all outcome combinations",
         "Relational check against both parse results and the specification's distance.", "6 C13"),
 "C14": (MC, "HashCodec.tla buffer gate (FormSize / FormRepr) judged by TLC on recorded store events for every buffer length 0..N+64 (TraceHash.tla)",
         "Every buffer length in the range for every form and variant.", "6 C14"),
 "C15": (MC, "HashCodec.tla strict acceptance (StrictValid, ApplicableParseErrors) judged by TLC on recorded strict-build parser events; every generated hash checked strict-valid and round-tripped (TraceGen.tla)",
         "Strict-build field sweeps through text and bytes; generator side on all recorded finalisations.", "6 C15"),
 "C16": (MC, "Serde.tla (SerOf / DeAllows / format framing) judged by TLC on recorded serde events: real formats (serde_json, ciborium, postcard) and a scripted mock (de)serializer answering with every visitor event (TraceHash.tla)",
         "Every recorded (human-readable?, visitor event, payload) combination in three feature sets; acceptance iff the matching parser accepts; no panic.", "6 C16"),
 "C17": ("exploration", "monitored executions judged by the TLA+ trace specifications (TraceHash / TraceGen / TraceStream): every event of every family in checked (debug-assertions + overflow-checks), 'unsafe'-feature and plain release builds must be a normal return the specification allows or a documented panic; adversarial Read impls (over-claiming, lying) incl. every reader script of MCStreamReplay in unsafe / release / opt-level-0 builds; ThreadSanitizer execution mode of the thread families (instrumented std) in both tiers, AddressSanitizer execution mode in the thorough tier",
         "Totality and the truth of every invariant!() over the recorded corpus in every configuration; memory safety only as far as it surfaces behaviourally (panic, crash, changed result) - reduced level, see DESIGN.md section 7.", "6 C17"),
 "C18": (MC, "Alloc.tla allocation budget per action judged by TLC on recorded events carrying the allocator-call count of a counting global allocator, in five (thorough: eleven) configurations incl. the library built with neither std nor alloc",
         "Budget 0 for every core action on every recorded event; the no-std/no-alloc build is a precondition of its trace.", "6 C18"),
}
done = json.load(open(V + "/tools/enabled_checks.json"))
checks = []
for pid in ids:
    if pid not in done:
        continue
    level, tech, text, ref = CHECKS[pid]
    checks.append({
        "property_id": pid,
        "quick_cmd": "bin/vcheck run %s --tier quick" % pid,
        "thorough_cmd": "bin/vcheck run %s --tier thorough" % pid,
        "evidence_file": "evidence/%s.json" % pid,
        "replay_cmd_template": "bin/vcheck replay {path}",
        "engine": "tlc",
        "level_claimed": {"category": level, "text": text, "design_ref": "DESIGN.md section " + ref},
        "level_note": "Trusted: TLC/SANY/CommunityModules Json reader, rustc/cargo, the recorder (harness/), the pinned constant tables in spec/Tables.tla (validated against published vectors). Sampling where stated in DESIGN.md section 6.",
        "technique": tech,
    })
hooks = subprocess.run(["git", "-C", "/repo", "log", "--format=%h %s"], capture_output=True, text=True).stdout.splitlines()
hook_commits = [l.split()[0] for l in hooks if "verif hook" in l]
m = {
 "version": 1,
 "setup_cmd": "bin/vcheck setup",
 "hooks": {"guard": "fast_tlsh_verif",
           "enable": "RUSTFLAGS='--cfg fast_tlsh_verif --check-cfg cfg(fast_tlsh_verif)' (set by bin/vcheck for every harness build; also in harness/.cargo/config.toml)",
           "baseline_off_cmd": "cd /repo && cargo test --workspace --no-fail-fast --offline",
           "source_commits": hook_commits, "add_only": True},
 "engines": [{"name": "tlc", "path": "bin/tlc.sh", "serves_properties": [c["property_id"] for c in checks],
              "kind_free_text": "TLC 1.8.0 on the TLA+ specification in spec/: model checking configurations (MC*.cfg) and trace validation (Trace*.tla) of NDJSON traces recorded from the real library by harness/ (vrec)"}],
 "checks": checks,
 "not_applicable": [{"property_id": p, "reason": "check not built yet (work in progress; planned in DESIGN.md section 6)"} for p in ids if p not in done],
 "notes": "All checks: bin/vcheck run <id> [--tier quick|thorough]; exit 0 held, 1 with VIOLATION line, 2 tool error. Seeds: VERIF_SEED.",
}
json.dump(m, open(V + "/MANIFEST.json", "w"), indent=1)
print("checks:", [c["property_id"] for c in checks])
