#!/usr/bin/env python3
"""Confirm a seeded change (from a sub-agent's scratch worktree) and run the checks against it.

usage: eval_mutant.py <name> <worktree> <property> [extra check ids...]
 1. in the worktree: apply MUTANT/patch.diff, run the repository's test suite (must pass), run the
    demonstration (must fail), revert, run the demonstration again (must pass);
 2. apply the patch to /repo, run `bin/vcheck run <property>` (quick tier) and any extra checks, revert;
 3. keep patch, demonstration and meta.json under /verif/seeded/<name>/.
"""
import json, os, shutil, subprocess, sys, time
name, wt, pid = sys.argv[1], sys.argv[2], sys.argv[3]
extra = sys.argv[4:]
M = os.path.join(wt, "MUTANT")
def sh(cmd, cwd=None, timeout=3000):
    r = subprocess.run(cmd, shell=True, cwd=cwd, stdout=subprocess.PIPE, stderr=subprocess.STDOUT, text=True, timeout=timeout)
    return r.returncode, r.stdout
patch = os.path.join(M, "patch.diff")
demo_cmd = open(os.path.join(M, "demo_cmd.txt")).read().strip()
cmds = [l.strip() for l in demo_cmd.splitlines() if l.strip() and not l.strip().startswith("#")]
meta = {"name": name, "property": pid, "ran": []}
# the repository's own suite is run WITHOUT the demonstration present
demos = [f for f in os.listdir(M) if f.endswith(".rs") and f.startswith("demo")]
for f in demos:
    dst = os.path.join(wt, "fast-tlsh", "tests", f)
    if os.path.exists(dst):
        os.remove(dst)
rc, out = sh("git checkout -- . && git apply %s" % patch, cwd=wt)
assert rc == 0, out
rc_t, out_t = sh("cargo test --workspace --offline 2>&1 | grep -E '^test result|FAILED|panicked' | head -20", cwd=wt)
suite_ok = "FAILED" not in out_t and "149 passed" in out_t
for f in demos:
    dst = os.path.join(wt, "fast-tlsh", "tests", f)
    os.makedirs(os.path.dirname(dst), exist_ok=True)
    shutil.copy(os.path.join(M, f), dst)
def run_demo():
    res = []
    for c in cmds:
        if not any(w in c for w in ("cargo", "RUSTFLAGS")):
            continue
        rc, out = sh(c + " 2>&1 | tail -15", cwd=wt)
        failed = ("FAILED" in out) or ("panicked" in out) or ("error" in out and "test result: ok" not in out)
        res.append((c, failed, out[-600:]))
    return res
with_change = run_demo()
sh("git checkout -- .", cwd=wt)
without_change = run_demo()
meta["suite_passes_with_change"] = suite_ok
meta["demo_fails_with_change"] = any(f for _, f, _ in with_change)
meta["demo_passes_without_change"] = not any(f for _, f, _ in without_change)
meta["demo_cmds"] = cmds
print("suite ok:", suite_ok, "| demo fails with change:", meta["demo_fails_with_change"], "| demo passes without:", meta["demo_passes_without_change"])
# run the checks against /repo with the change applied
rc, out = sh("git -C /repo status --porcelain --untracked-files=no")
assert out.strip() == "", "repo not clean: " + out
rc, out = sh("git -C /repo apply %s" % patch)
assert rc == 0, out
results = {}
try:
    for p in [pid] + extra:
        t0 = time.time()
        rc, out = sh("bin/vcheck run %s --tier quick" % p, cwd="/verif")
        viol = [l for l in out.splitlines() if l.startswith("VIOLATION")]
        desc = [l.strip() for l in out.splitlines() if l.strip().startswith("violation:")]
        results[p] = {"exit": rc, "violations": len(viol), "first": (desc[0][:400] if desc else ""), "wall_s": round(time.time() - t0)}
        print(p, "exit", rc, "violations", len(viol), (desc[0][:200] if desc else ""))
        meta["ran"].append("bin/vcheck run %s --tier quick (with the change applied to /repo)" % p)
finally:
    sh("git -C /repo checkout -- .")
meta["checks"] = results
meta["detected_by"] = [p for p, r in results.items() if r["exit"] == 1]
d = os.path.join("/verif/seeded", name)
os.makedirs(d, exist_ok=True)
shutil.copy(patch, os.path.join(d, "patch.diff"))
for f in os.listdir(M):
    if f != "patch.diff" and os.path.isfile(os.path.join(M, f)):
        shutil.copy(os.path.join(M, f), os.path.join(d, f))
json.dump(meta, open(os.path.join(d, "meta.json"), "w"), indent=1)
