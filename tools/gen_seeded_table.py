#!/usr/bin/env python3
"""Regenerates the table of section 14 of DESIGN.md from seeded/*/meta.json."""
import json, glob, os, re
rows = []
for m in sorted(glob.glob("/verif/seeded/*/meta.json")):
    d = json.load(open(m))
    checks = d.get("checks", {})
    det = ", ".join("%s" % p for p in d.get("detected_by", [])) or "—"
    missed = ", ".join(p for p, r in checks.items() if r["exit"] == 0) or "—"
    ok = d.get("suite_passes_with_change") and d.get("demo_fails_with_change") and d.get("demo_passes_without_change")
    rows.append("| `%s` | %s | %s | %s | %s | %s |" % (d["name"], d["property"], d.get("summary", "").replace("|", "/"),
                d.get("needs", "").replace("|", "/"), det + (" (quick tier)" if det != "—" else ""),
                (missed if missed != "—" else "—") + ("" if ok else " (confirmation incomplete)")))
table = ["| Seeded change | Property | What it changes | What it needs to manifest | Detected by | Run but not detecting |",
         "| --- | --- | --- | --- | --- | --- |"] + rows
notes = []
for m in sorted(glob.glob("/verif/seeded/*/meta.json")):
    d = json.load(open(m))
    if d.get("history"):
        notes.append("*   `%s`: %s" % (d["name"], d["history"]))
text = "\n".join(table) + ("\n\n" + "\n".join(notes) if notes else "")
p = "/verif/DESIGN.md"
s = open(p).read()
s = re.sub(r"<!-- SEEDED-TABLE-BEGIN -->.*<!-- SEEDED-TABLE-END -->",
           "<!-- SEEDED-TABLE-BEGIN -->\n" + text.replace("\\", "\\\\") + "\n<!-- SEEDED-TABLE-END -->", s, flags=re.S)
open(p, "w").write(s)
print(len(rows), "rows")
