----------------------------- MODULE MCDispatch -----------------------------
EXTENDS Dispatch, TLC
CONSTANTS MaxCalls
VARIABLE calls          \* bound: number of calls begun per thread
vars == <<cell, pc, used, calls>>
MDetected == [c \in Cells |-> IF c = "d32" THEN "avx2" ELSE "sse41"]
Init == DInit /\ calls = [t \in Threads |-> 0]
Next == \E t \in Threads :
           \/ \E c \in Cells : calls[t] < MaxCalls /\ CallBegin(t, c) /\ calls' = [calls EXCEPT ![t] = @ + 1]
           \/ (FastPath(t) \/ BeginInit(t) \/ Detect(t) \/ Install(t) \/ CallEnd(t)) /\ UNCHANGED calls
Progress == \E t \in Threads : (FastPath(t) \/ BeginInit(t) \/ Detect(t) \/ Install(t) \/ CallEnd(t)) /\ UNCHANGED calls
Spec == Init /\ [][Next]_vars /\ \A t \in Threads : WF_vars((FastPath(t) \/ BeginInit(t) \/ Detect(t) \/ Install(t) \/ CallEnd(t)) /\ UNCHANGED calls)
\* every thread that entered eventually returns
AllReturn == \A t \in Threads : [](pc[t].st # "Idle" => <>(pc[t].st = "Idle"))
CellStableMC == [][\A c \in Cells : Ready(c) => cell'[c] = cell[c]]_vars
=============================================================================
