CONSTANTS
    W = 32
    MANT = 24
    TopTab <- TopLimbs32
    VName = "Normal"
    MaxSteps = 4
    MaxInts = 1
SPECIFICATION Spec
INVARIANT OutcomeCorrect
INVARIANT StateMatchesDelivered
INVARIANT ReplayLine
CHECK_DEADLOCK FALSE
