------------------------------- MODULE Stream -------------------------------
(***************************************************************************)
(* hash_stream / hash_file: the read loop around a generator, against an   *)
(* adversarial reader.                                                     *)
(*                                                                         *)
(*   pc        "Reading" | "Done"                                          *)
(*   sg        the generator being fed                                     *)
(*   outcome   the returned value once Done:                               *)
(*             [kind |-> "Hash", r |-> result of finalize()]               *)
(*             [kind |-> "IOError", e |-> error kind]                      *)
(*             [kind |-> "Panic"]      (reader reported more than it got)  *)
(* One action per thing the reader can do on a read call.                  *)
(***************************************************************************)
EXTENDS Generator

DefaultOptions == 2      \* finalize(): optimistic, legacy f32 formula, nothing permissive

\* buf: what the loop's read buffer holds, as far as it has been written (the rest is zero: the
\* buffer is allocated zero-filled and reused for every read); bufKnown is FALSE once a delivery
\* too long to model byte by byte has passed through it.
StreamStart(v) == [pc |-> "Reading", sg |-> GenNew(v), outcome |-> [kind |-> "None"],
                   buf |-> <<>>, bufKnown |-> TRUE]
BufAfterWrite(buf, data) ==
    IF Len(data) >= Len(buf) THEN data ELSE data \o SubSeq(buf, Len(data) + 1, Len(buf))
BufPrefix(buf, n) == [i \in 1..n |-> IF i <= Len(buf) THEN buf[i] ELSE 0]

\* the reader delivered `data` (1 <= Len(data) <= buffer length)
SReadOk(v, s, data) == [s EXCEPT !.sg = GenUpdate(v, s.sg, data), !.buf = BufAfterWrite(s.buf, data)]
SReadOkPeriodic(v, s, pat, off, k) == [s EXCEPT !.sg = GenUpdatePeriodic(v, s.sg, pat, off, k), !.bufKnown = FALSE]
\* the reader claims n bytes (within the buffer) but wrote none: a buggy yet safe Read impl.
\* The loop hashes what its buffer holds; enabled only while the buffer content is known.
SReadLie(v, s, n) == [s EXCEPT !.sg = GenUpdate(v, s.sg, BufPrefix(s.buf, n))]
\* `count` consecutive reads of n bytes each (logged as one event): by chunking independence
\* (C03, MCGenChunk) the same as one delivery of count * n bytes; offW is a word, the total wide
SReadOkRun(v, s, pat, offW, n, count) ==
    LET totalW == WScale(WOfNat(n), count)          \* n < 2^21, count < 2^12: fits a word
        lead   == IF WLe(WOfNat(8), totalW) THEN 8 ELSE WNat(totalW)
        g1     == GenUpdate(v, s.sg, PeriodicData(pat, WModSmall(offW, Len(pat)), lead))
        restW  == WSub(totalW, WOfNat(lead))
    IN  [s EXCEPT !.sg = IF restW = WZero \/ WLe(MaxGenLen, g1.len) THEN g1
                         ELSE GenUpdatePeriodicWide(v, g1, pat, WAddNat(offW, lead), restW, <<>>),
                  !.bufKnown = FALSE]
\* ErrorKind::Interrupted: the read is retried, nothing changes
SReadInterrupted(v, s) == s
\* any other error ends the run with that error and no hash
SReadErr(v, s, e) == [s EXCEPT !.pc = "Done", !.outcome = [kind |-> "IOError", e |-> e]]
\* end of stream: finalize with the default options
SReadEof(v, s) == [s EXCEPT !.pc = "Done",
                            !.outcome = [kind |-> "Hash", r |-> GenFinalize(v, s.sg, DefaultOptions)]]
\* the reader claims more bytes than the buffer holds: a clean panic
SReadMisreport(v, s) == [s EXCEPT !.pc = "Done", !.outcome = [kind |-> "Panic"]]

=============================================================================
