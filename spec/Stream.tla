------------------------------- MODULE Stream -------------------------------
(***************************************************************************)
(* hash_stream / hash_file: the read loop around a generator, against an   *)
(* adversarial reader.                                                     *)
(*                                                                         *)
(*   pc        "Reading" | "Done"                                          *)
(*   sg        the generator being fed                                     *)
(*   outcome   the returned value once Done:                               *)
(*             [kind |-> "Hash", r |-> result of finalize()]               *)
(*             [kind |-> "IOError", e |-> error kind]                      *)
(*             [kind |-> "Panic"]      (reader reported more than it got)  *)
(* One action per thing the reader can do on a read call.                  *)
(***************************************************************************)
EXTENDS Generator

DefaultOptions == 2      \* finalize(): optimistic, legacy f32 formula, nothing permissive

StreamStart(v) == [pc |-> "Reading", sg |-> GenNew(v), outcome |-> [kind |-> "None"]]

\* the reader delivered `data` (1 <= Len(data) <= buffer length)
SReadOk(v, s, data) == [s EXCEPT !.sg = GenUpdate(v, s.sg, data)]
SReadOkPeriodic(v, s, pat, off, k) == [s EXCEPT !.sg = GenUpdatePeriodic(v, s.sg, pat, off, k)]
\* ErrorKind::Interrupted: the read is retried, nothing changes
SReadInterrupted(v, s) == s
\* any other error ends the run with that error and no hash
SReadErr(v, s, e) == [s EXCEPT !.pc = "Done", !.outcome = [kind |-> "IOError", e |-> e]]
\* end of stream: finalize with the default options
SReadEof(v, s) == [s EXCEPT !.pc = "Done",
                            !.outcome = [kind |-> "Hash", r |-> GenFinalize(v, s.sg, DefaultOptions)]]
\* the reader claims more bytes than the buffer holds: a clean panic
SReadMisreport(v, s) == [s EXCEPT !.pc = "Done", !.outcome = [kind |-> "Panic"]]

=============================================================================
