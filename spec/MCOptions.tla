------------------------------ MODULE MCOptions ------------------------------
(***************************************************************************)
(* GeneratorOptions as a state machine: the five builder calls, each with  *)
(* TRUE or FALSE, from GeneratorOptions::new(), every history of at most   *)
(* MaxCalls calls (a tree: `calls` is a history variable on purpose - the  *)
(* implementation keeps flags whose encoding the specification does not    *)
(* know, so single transitions from canonical states are not enough).      *)
(* Laws checked on every history; every history is printed as a REPLAY     *)
(* line and run through the real builder (specification -> implementation):*)
(* the object must be equal to the canonical object of the option number,  *)
(* is_tlsh_compatible must agree, and finalizing fixed generators with it  *)
(* must give that option number's result.                                  *)
(***************************************************************************)
EXTENDS Options, Reference, Json

CONSTANT MaxCalls

VARIABLES o, calls
vars == <<o, calls>>

Names == {"length_mode_conservative", "pure_integer", "allow_small", "allow_half", "allow_quarter"}

Init == o = OptionsNew /\ calls = <<>>
Call(name, value) ==
    /\ Len(calls) < MaxCalls
    /\ o' = ApplyCall(o, <<name, value>>)
    /\ calls' = Append(calls, <<name, value>>)
Next == \E name \in Names, value \in BOOLEAN : Call(name, value)
Spec == Init /\ [][Next]_vars

\* declarative reading: every setting is what the LAST call of that name said, or the default
LastOf(name, default) ==
    LET idx == {i \in 1..Len(calls) : calls[i][1] = name} IN
    IF idx = {} THEN default ELSE calls[CHOOSE i \in idx : \A j \in idx : j <= i][2]
LastWriterWins ==
    /\ o.cons    = LastOf("length_mode_conservative", FALSE)
    /\ o.pureInt = LastOf("pure_integer", FALSE)
    /\ o.small   = LastOf("allow_small", FALSE)
    /\ o.half    = LastOf("allow_half", FALSE)
    /\ o.quarter = LastOf("allow_quarter", FALSE)

N == OptionNumber(o)
NumberInRange == N \in Options
\* the number decodes back to the settings (Options.tla and Reference.tla agree on the bit layout)
NumberDecodes ==
    /\ OptConservative(N) = o.cons /\ OptF32(N) = ~o.pureInt /\ OptSmall(N) = o.small
    /\ OptHalf(N) = o.half /\ OptQuarter(N) = o.quarter
\* TLSH-compatible iff nothing permissive is on: exactly the option numbers 0..3
CompatibleIffLow == IsTlshCompatible(o) <=> N < 4
\* new() is the legacy-formula, optimistic, nothing-permissive set
NewIsTwo == calls = <<>> => N = 2

\* action property: switching a permissive flag on (or the conservative mode off) never moves down the order
Widening(name, value) == \/ name \in {"allow_small", "allow_half", "allow_quarter"} /\ value
                         \/ name = "length_mode_conservative" /\ ~value
WideningMovesUp ==
    [][\A name \in Names, value \in BOOLEAN :
          (Call(name, value) /\ Widening(name, value)) => OptLe(OptionNumber(o), OptionNumber(o'))]_vars

ReplayLine == PrintT("REPLAY " \o ToJson([calls |-> calls, n |-> N, compatible |-> IsTlshCompatible(o)]))
=============================================================================
