------------------------------ MODULE TraceLen ------------------------------
(***************************************************************************)
(* Trace specification for the length code (C09).  The recorder encodes    *)
(* ALL 2^32 lengths natively and compresses the observation losslessly     *)
(* into maximal runs [lo, hi] -> outcome; the runs arrive in ascending     *)
(* order.  A run is accepted iff it is exactly the range the table         *)
(* assigns to its code, and the k-th run must carry code k-1, so the       *)
(* accepted runs tile 0 .. 2^32 - 1 (LengthCode!RangesTile, model checked  *)
(* on the same table, says the ranges themselves tile 0 .. MAX).           *)
(* Then value / is_valid / range of all 256 raw codes.                     *)
(***************************************************************************)
EXTENDS LengthCode, Tables, Alloc, Json, IOUtils, TLC, TLCExt

Rec == ndJsonDeserialize(IOEnv.TRACE)
VARIABLE l
Ev == Rec[l]
IsEvent(k) == l <= Len(Rec) /\ Ev.e = k /\ l' = l + 1

TLenRun ==
    /\ IsEvent("len_run") /\ Ev.p = "" /\ AllocOk(Ev.e, Ev.a)
    /\ l <= NumCodes + 1
    /\ IF l <= NumCodes
       THEN /\ Ev.code = l - 1 /\ Ev.tcode = l - 1              \* new() and try_from() agree
            /\ <<Ev.lo, Ev.hi>> = CodeRange(l - 1)
       ELSE /\ Ev.code = -1 /\ Ev.tcode = -1                    \* above the maximum: None / LengthIsTooLarge
            /\ Ev.lo = WInc(MaxLenW) /\ Ev.hi = WMaxWord

TSweepEnd == IsEvent("len_sweep_end") /\ l = NumCodes + 2

TLenCode ==
    /\ IsEvent("len_code") /\ Ev.p = "" /\ AllocOk(Ev.e, Ev.a)
    /\ Ev.parsed /\ Ev.value = Ev.c
    /\ Ev.valid = CodeValid(Ev.c)
    /\ Ev.range = CodeRange(Ev.c)

TraceNext == TLenRun \/ TSweepEnd \/ TLenCode
TraceSpec == l = 1 /\ [][TraceNext]_l

TraceAccepted ==
    LET d == TLCGet("stats").diameter IN
    IF d = Len(Rec) + 1 THEN TRUE
    ELSE /\ PrintT(<<"TRACE-REJECTED at line", d, "of", Len(Rec)>>)
         /\ PrintT(<<"event", IF d <= Len(Rec) THEN Rec[d] ELSE "none">>)
         /\ FALSE
=============================================================================
