CONSTANTS
    W = 32
    MANT = 24
    TopTab <- TopLimbs32
    MaxCalls = 3
SPECIFICATION Spec
INVARIANT LastWriterWins
INVARIANT NumberInRange
INVARIANT NumberDecodes
INVARIANT CompatibleIffLow
INVARIANT NewIsTwo
INVARIANT ReplayLine
PROPERTY WideningMovesUp
CHECK_DEADLOCK FALSE
