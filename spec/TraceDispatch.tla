---------------------------- MODULE TraceDispatch ----------------------------
(***************************************************************************)
(* Trace specification for the process's first calls made concurrently     *)
(* (C07, schedules).  Each recorder process starts 8 threads behind a      *)
(* barrier; every thread logs, per call, the dispatch cells it observed     *)
(* initialised before and after (verification hook) and the result, with    *)
(* a per-thread sequence number.  There is no cross-thread order in the    *)
(* log (no wall clocks), so the accepted predicate is schedule-independent: *)
(*   - every result equals the specification's value (whatever thread won   *)
(*     the race to initialise the cell);                                    *)
(*   - per thread, a cell observed initialised is never observed empty      *)
(*     later (Dispatch!CellStable), and the cell a call went through is     *)
(*     initialised afterwards.                                              *)
(* Cells: <<dist32, dist64, agg48, agg128, agg256>>; all FALSE in builds    *)
(* without runtime dispatch (`dyn` = FALSE).                                *)
(***************************************************************************)
EXTENDS Generator, Distance, Alloc, Json, IOUtils, TLCExt

Rec == ndJsonDeserialize(IOEnv.TRACE)
VARIABLES l, seen       \* seen[t]: <<last seq, last observed cells>> of thread t in the current process
vars == <<l, seen>>
Ev == Rec[l]
IsEvent(k) == l <= Len(Rec) /\ Ev.e = k /\ l' = l + 1

NoCells == <<FALSE, FALSE, FALSE, FALSE, FALSE>>
Implies(a, b) == \A i \in 1..5 : a[i] => b[i]
CellOf(op, v) == CASE op = "cmp" /\ v.nb = 128 -> 1 [] op = "cmp" /\ v.nb = 256 -> 2
                   [] op = "fin" /\ v.nb = 48 -> 3 [] op = "fin" /\ v.nb = 128 -> 4
                   [] op = "fin" /\ v.nb = 256 -> 5 [] OTHER -> 0

StateOfJson(v, st) ==
    [bk |-> [i \in 0..(v.nb - 1) |-> st.bk[i + 1]], len |-> st.len, ck |-> st.ck, tail |-> st.tail,
     tailLen |-> st.tailLen]

TReset == IsEvent("dreset") /\ seen' = [t \in 0..15 |-> <<0, NoCells>>]

TCall ==
    /\ IsEvent("dcall") /\ Ev.p = "" /\ AllocOk(Ev.e, Ev.a)     \* also under contention (C18)
    /\ LET v == VariantByName(Ev.v)
           c == CellOf(Ev.op, v) IN
       /\ Ev.seq = seen[Ev.t][1] + 1                               \* per-thread sequence numbers, no gaps
       /\ Implies(seen[Ev.t][2], Ev.before) /\ Implies(Ev.before, Ev.after)     \* never observed empty again
       /\ (Ev.dyn /\ c # 0) => Ev.after[c]                          \* the cell used is initialised afterwards
       /\ ~Ev.dyn => Ev.after = NoCells
       /\ IF Ev.op = "cmp"
          THEN Ev.d = Dist(v, Ev.a1, Ev.b1, FALSE)
          ELSE Ev.r = GenFinalize(v, StateOfJson(v, Ev.st), 31)
       /\ seen' = [seen EXCEPT ![Ev.t] = <<Ev.seq, Ev.after>>]

TraceNext == TReset \/ TCall
TraceSpec == l = 1 /\ seen = [t \in 0..15 |-> <<0, NoCells>>] /\ [][TraceNext]_vars
TraceAccepted ==
    LET d == TLCGet("stats").diameter IN
    IF d = Len(Rec) + 1 THEN TRUE
    ELSE /\ PrintT(<<"TRACE-REJECTED at line", d, "of", Len(Rec)>>)
         /\ PrintT(<<"event", IF d <= Len(Rec) THEN [e |-> Rec[d].e] ELSE "none">>)
         /\ FALSE
=============================================================================
