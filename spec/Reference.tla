----------------------------- MODULE Reference -----------------------------
(***************************************************************************)
(* TLSH as a function of the whole input, written independently of the     *)
(* incremental machine of Generator.tla: no tail, no chunks, no limit.     *)
(*                                                                         *)
(*   RefBuckets(v, data)[i]  number of (window position, salt) pairs whose *)
(*                           triplet maps to bucket i, mod 2^W             *)
(*   RefChecksum(v, data)    the running Pearson checksum                  *)
(*   Finalize(v, bk, ck, n, o)  the result for buckets bk, checksum ck,    *)
(*                           fed length n and option set o (0..31)         *)
(*   RefHash(v, data, o)     the composition of the three                  *)
(*                                                                         *)
(* Options are numbered o \in 0..31:                                        *)
(*   bit 0 conservative length mode      bit 1 legacy f32 Q-ratio formula  *)
(*   bit 2 allow small inputs            bit 3 allow half-empty buckets    *)
(*   bit 4 allow three-quarter-empty buckets                               *)
(***************************************************************************)
EXTENDS F32, LengthCode, Pearson, Variant, SequencesExt, TLC

Options == 0..31
OptConservative(o) == o % 2 = 1
OptF32(o)          == (o \div 2) % 2 = 1
OptSmall(o)        == (o \div 4) % 2 = 1
OptHalf(o)         == (o \div 8) % 2 = 1
OptQuarter(o)      == (o \div 16) % 2 = 1
\* o2 is at least as permissive as o1 (same Q-ratio formula).
OptLe(o1, o2) ==
    /\ OptF32(o1) = OptF32(o2)
    /\ OptConservative(o2) => OptConservative(o1)
    /\ OptSmall(o1) => OptSmall(o2)
    /\ (OptHalf(o1) \/ OptQuarter(o1)) => (OptHalf(o2) \/ OptQuarter(o2))
    /\ OptQuarter(o1) => OptQuarter(o2)

ResOk(h)    == [ok |-> TRUE,  err |-> "",  h |-> h]
ResErr(e)   == [ok |-> FALSE, err |-> e,   h |-> <<>>]
GenErrors   == {"TooLargeInput", "TooSmallInput", "BucketsAreHalfEmpty",
                "BucketsAreThreeQuarterEmpty"}

-----------------------------------------------------------------------------
(* Feature extraction.                                                     *)

BMapOf(v, s, x, y, z) ==
    CASE v.map = "p48" -> BMap48(s, x, y, z)
      [] v.map = "p8"  -> BMap256(s, x, y, z) % 8        \* toy variants only
      [] OTHER         -> BMap256(s, x, y, z)

\* The six bucket indices produced by the window b0 b1 b2 b3 b4 (b4 newest).
WindowBuckets(v, b0, b1, b2, b3, b4) ==
    << BMapOf(v,  2, b4, b3, b2), BMapOf(v,  3, b4, b3, b1), BMapOf(v,  5, b4, b2, b1),
       BMapOf(v,  7, b4, b2, b0), BMapOf(v, 11, b4, b3, b0), BMapOf(v, 13, b4, b1, b0) >>

\* Checksum update with the current and the previous byte.
CkUpdate(v, ck, cur, prev) ==
    LET c1 == BMapOf(v, 0, cur, prev, ck[1]) IN
    IF v.ckLen = 1 THEN <<c1>>
    ELSE LET c2 == BMap256(c1, cur, prev, ck[2])
             c3 == BMap256(c2, cur, prev, ck[3])
         IN  <<c1, c2, c3>>

CkZero(v) == [i \in 1..v.ckLen |-> 0]
BkZero(v) == [i \in 0..(v.nb - 1) |-> WZero]

\* Increment (wrapping) of bucket i; indices outside the effective buckets
\* are not observable and are dropped.
BkInc(v, bk, i) == IF i < v.nb THEN [bk EXCEPT ![i] = WInc(@)] ELSE bk
BkInc6(v, bk, ix) ==
    BkInc(v, BkInc(v, BkInc(v, BkInc(v, BkInc(v, BkInc(v, bk, ix[1]), ix[2]), ix[3]), ix[4]), ix[5]), ix[6])

RefBuckets(v, data) ==
    FoldLeft(LAMBDA bk, p :
                 BkInc6(v, bk, WindowBuckets(v, data[p - 4], data[p - 3], data[p - 2], data[p - 1], data[p])),
             BkZero(v),
             [k \in 1..(IF Len(data) > 4 THEN Len(data) - 4 ELSE 0) |-> k + 4])

RefChecksum(v, data) ==
    FoldLeft(LAMBDA ck, p : CkUpdate(v, ck, data[p], data[p - 1]),
             CkZero(v),
             [k \in 1..(IF Len(data) > 4 THEN Len(data) - 4 ELSE 0) |-> k + 4])

-----------------------------------------------------------------------------
(* Finalisation: a pure function of (buckets, checksum, fed length).       *)

\* Quartile values: the elements of rank nb/4, nb/2, 3nb/4 (1-based) in
\* ascending order of the effective buckets.
SortedBuckets(v, bk) == SortSeq([i \in 1..v.nb |-> bk[i - 1]], WLt)
Quartiles(v, bk) ==
    LET s == SortedBuckets(v, bk)
    IN  <<s[v.nb \div 4], s[v.nb \div 2], s[3 * (v.nb \div 4)]>>
\* The rank definition, independent of sorting (model checked to agree).
RankValue(v, bk, k) ==
    LET vals == {bk[i] : i \in 0..(v.nb - 1)}
        AtMost(x) == Cardinality({i \in 0..(v.nb - 1) : WLe(bk[i], x)})
    IN  CHOOSE x \in vals : AtMost(x) >= k /\ \A y \in vals : AtMost(y) >= k => WLe(x, y)

NonZeroCount(v, bk) == Cardinality({i \in 0..(v.nb - 1) : bk[i] # WZero})

QRatioInt(q, q3) == W3DivSmall(W3Mul(q, 100), q3, 100) % 16
QRatio(q, q3, f32) == IF f32 THEN FQRatio(q, q3) ELSE QRatioInt(q, q3)

\* Dibit of a bucket value: how many of q1 <= q2 <= q3 it strictly exceeds.
Dibit(x, q1, q2, q3) ==
    IF WLt(q3, x) THEN 3 ELSE IF WLt(q2, x) THEN 2 ELSE IF WLt(q1, x) THEN 1 ELSE 0

\* Body bytes: the LAST byte carries buckets 0..3, bucket 0 in its low bits.
BodyOf(v, bk, q1, q2, q3) ==
    [j \in 1..BodyLen(v) |->
        LET g == BodyLen(v) - j IN
          Dibit(bk[4 * g],     q1, q2, q3)
        + Dibit(bk[4 * g + 1], q1, q2, q3) * 4
        + Dibit(bk[4 * g + 2], q1, q2, q3) * 16
        + Dibit(bk[4 * g + 3], q1, q2, q3) * 64]

\* Everything finalisation derives from the buckets alone (shared by all 32
\* option sets): whether the third quartile is zero, the number of non-zero
\* buckets, the Q-ratio byte under either formula and the body.
FinParts(v, bk) ==
    LET qs == Quartiles(v, bk)
        q  == IF qs[3] = WZero THEN <<WOne, WOne, WOne>> ELSE qs     \* dummy quartiles
    IN  [q3zero |-> qs[3] = WZero,
         nz     |-> NonZeroCount(v, bk),
         qInt   |-> QRatio(q[2], q[3], FALSE) * 16 + QRatio(q[1], q[3], FALSE),
         qF32   |-> QRatio(q[2], q[3], TRUE) * 16 + QRatio(q[1], q[3], TRUE),
         body   |-> BodyOf(v, bk, q[1], q[2], q[3])]

\* n: fed length as a word, or WNone for 2^W bytes or more.
\* Rejections in the order length -> three-quarter-empty -> half-empty.
FinalizeP(v, parts, ck, n, code, o) ==
    LET val == LenValidity(n, v.min, v.minCons) IN
    IF val = "TooLarge" THEN ResErr("TooLargeInput")
    ELSE IF ValidityIsErrOn(val, OptConservative(o)) /\ ~OptSmall(o) THEN ResErr("TooSmallInput")
    ELSE IF parts.q3zero /\ ~OptQuarter(o) THEN ResErr("BucketsAreThreeQuarterEmpty")
    ELSE IF parts.nz < v.minNz /\ ~(OptHalf(o) \/ OptQuarter(o)) THEN ResErr("BucketsAreHalfEmpty")
    ELSE ResOk(ck \o <<code>>
                  \o <<IF OptF32(o) THEN parts.qF32 ELSE parts.qInt>>
                  \o parts.body)

Finalize(v, bk, ck, n, o) == FinalizeP(v, FinParts(v, bk), ck, n, LenCode(n), o)

RefHash(v, data, o) ==
    Finalize(v, RefBuckets(v, data), RefChecksum(v, data), WOfNat(Len(data)), o)

\* The fan of all 32 option sets (index o + 1).
FinalizeFan(v, bk, ck, n) ==
    LET parts == FinParts(v, bk)
        code  == LenCode(n)
    IN  [i \in 1..32 |-> FinalizeP(v, parts, ck, n, code, i - 1)]

\* Laws over a fan (C10): permissiveness only widens acceptance and never
\* changes an accepted hash; the error kinds are ordered length -> 3/4 -> 1/2.
OptLePairs == {p \in Options \X Options : OptLe(p[1], p[2])}       \* computed once
FanLattice(fan) == \A p \in OptLePairs : fan[p[1] + 1].ok => fan[p[2] + 1] = fan[p[1] + 1]

=============================================================================
