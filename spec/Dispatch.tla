------------------------------ MODULE Dispatch ------------------------------
(***************************************************************************)
(* Runtime dispatch: N threads racing on once-initialised cells whose      *)
(* initialiser is a pure function of the CPU (OnceLock::get_or_init in     *)
(* compare/dist_body.rs and generate/bucket_aggregation.rs).               *)
(*                                                                         *)
(*   cell[c]   "Empty" | "Busy" (an initialiser is running) | a back end   *)
(*   pc[t]     what thread t is doing: Idle, Entered(c), Detecting(c),     *)
(*             Installing(c, f), Calling(c, f), Done(c, f)                 *)
(* One action per step of get_or_init, so that TLC explores every          *)
(* interleaving of first calls.                                            *)
(***************************************************************************)
EXTENDS Naturals, FiniteSets

CONSTANTS Threads, Cells, Backends,
          Detected          \* [Cells -> Backends]: what CPU detection selects (a constant of the machine)

VARIABLES cell, pc, used    \* used[t]: set of <<c, f>> thread t has called through
dvars == <<cell, pc, used>>

DInit == /\ cell = [c \in Cells |-> "Empty"]
         /\ pc = [t \in Threads |-> [st |-> "Idle"]]
         /\ used = [t \in Threads |-> {}]

Ready(c) == cell[c] \in Backends

CallBegin(t, c) == /\ pc[t].st = "Idle"
                   /\ pc' = [pc EXCEPT ![t] = [st |-> "Entered", c |-> c]]
                   /\ UNCHANGED <<cell, used>>
\* the cell is initialised: use what is there
FastPath(t) == /\ pc[t].st = "Entered" /\ Ready(pc[t].c)
               /\ pc' = [pc EXCEPT ![t] = [st |-> "Calling", c |-> pc[t].c, f |-> cell[pc[t].c]]]
               /\ UNCHANGED <<cell, used>>
\* the cell is empty: this thread becomes the initialiser (others wait while Busy)
BeginInit(t) == /\ pc[t].st = "Entered" /\ cell[pc[t].c] = "Empty"
                /\ cell' = [cell EXCEPT ![pc[t].c] = "Busy"]
                /\ pc' = [pc EXCEPT ![t] = [st |-> "Detecting", c |-> pc[t].c]]
                /\ UNCHANGED used
Detect(t) == /\ pc[t].st = "Detecting"
             /\ pc' = [pc EXCEPT ![t] = [st |-> "Installing", c |-> pc[t].c, f |-> Detected[pc[t].c]]]
             /\ UNCHANGED <<cell, used>>
Install(t) == /\ pc[t].st = "Installing"
              /\ cell' = [cell EXCEPT ![pc[t].c] = pc[t].f]
              /\ pc' = [pc EXCEPT ![t] = [st |-> "Calling", c |-> pc[t].c, f |-> pc[t].f]]
              /\ UNCHANGED used
CallEnd(t) == /\ pc[t].st = "Calling"
              /\ used' = [used EXCEPT ![t] = @ \cup {<<pc[t].c, pc[t].f>>}]
              /\ pc' = [pc EXCEPT ![t] = [st |-> "Idle"]]
              /\ UNCHANGED cell

DNext == \E t \in Threads : \/ \E c \in Cells : CallBegin(t, c)
                            \/ FastPath(t) \/ BeginInit(t) \/ Detect(t) \/ Install(t) \/ CallEnd(t)

\* Safety
CellsWellFormed == \A c \in Cells : cell[c] \in {"Empty", "Busy"} \cup Backends
AtMostOneInitialiser ==
    \A c \in Cells : Cardinality({t \in Threads : pc[t].st \in {"Detecting", "Installing"} /\ pc[t].c = c}) <= 1
\* every call goes through the detected back end, whoever initialised the cell
SameFunction == \A t \in Threads : \A p \in used[t] : p[2] = Detected[p[1]]
CallsOnlyThroughReady == \A t \in Threads : pc[t].st = "Calling" => cell[pc[t].c] = pc[t].f
\* a ready cell never changes (action property)
CellStable == [][\A c \in Cells : Ready(c) => cell'[c] = cell[c]]_dvars
=============================================================================
