------------------------------- MODULE Alloc -------------------------------
(***************************************************************************)
(* The allocation budget of every recorded event kind (C18).  "a" is the   *)
(* number of allocator calls (alloc, alloc_zeroed, realloc) the calling    *)
(* thread made during the library calls of the event, counted by the       *)
(* recorder's global allocator.  Core operations have budget 0, whatever   *)
(* the input, variant, options and build; the documented conveniences      *)
(* (to_string / Display, the stream and file helpers with their 1 MiB      *)
(* buffer, serde format crates) are unconstrained.                         *)
(***************************************************************************)
EXTENDS Naturals

\* new / update / processed_len / finalize_with_options / clone,
\* from_str_bytes / from_str_with / FromStr (accepting and rejecting),
\* TryFrom<&[u8]> / TryFrom<&[u8; N]>, store_into_bytes / store_into_str_bytes,
\* accessors, quartile, clear_checksum, compare_with_config and the part
\* distances, max_distance, FuzzyHashLengthEncoding::new / try_from / range.
CoreEvents == {"gen_new", "gen_update", "gen_update_p", "hash_buf", "gen_clone", "gen_fin", "parse", "parse_sweep", "frombytes", "store",
               "fmt", "fmt_sweep", "cmp", "eq", "dcall", "dist_matrix", "len_run", "len_code"}
Unconstrained == {"stream_end", "file", "file_data", "file_err", "example", "ser", "de", "de_doc", "cmpstr"}

AllocOk(kind, a) == kind \in CoreEvents => a = 0
=============================================================================
