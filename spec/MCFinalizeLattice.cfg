CONSTANTS
    W = 6
    MANT = 3
    TopTab <- ScaledTop
    Vals = {0, 1, 3}
    Lens = {0, 2, 3, 5, 6, 7, 56, 57, 58, 63, 64}
SPECIFICATION Spec
INVARIANT AllLaws
CHECK_DEADLOCK FALSE
