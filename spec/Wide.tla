------------------------------- MODULE Wide --------------------------------
(***************************************************************************)
(* Machine words of width W as pairs of limbs in base B = 2^(W/2).         *)
(*                                                                         *)
(* TLC's integers are 32-bit signed, and the interesting arithmetic of     *)
(* fast-tlsh (u32 counters that wrap, a u32 length that saturates at       *)
(* 2^32-4, q*100 up to 2^39, the f32 quotient) lives exactly at and above  *)
(* that width.  Every machine word is therefore a pair <<hi, lo>> with     *)
(* hi, lo \in 0..B-1, generically in W: the same text is model checked at  *)
(* W = 6 (B = 8) and executed on implementation traces at W = 32           *)
(* (B = 65536).  JSON traces carry 32-bit quantities as [hi, lo].          *)
(*                                                                         *)
(* Invariant of use: no intermediate value below ever reaches 2^31.        *)
(***************************************************************************)
EXTENDS Naturals, Integers, Sequences, FiniteSets

CONSTANT W              \* word width in bits (even, >= 4)

HB == W \div 2          \* bits per limb
B  == 2^HB              \* limb base

IsWord(w) == /\ w \in Seq(Nat) /\ Len(w) = 2 /\ w[1] < B /\ w[2] < B

WZero == <<0, 0>>
WOne  == <<0, 1>>
WMaxWord == <<B - 1, B - 1>>
\* "No exact value" (processed_len() = None): not a word, but comparable with words.
WNone == <<-1, -1>>

\* Conversions to and from TLC naturals (only for values below 2^31).
WOfNat(n) == <<n \div B, n % B>>
WFitsNat(w) == w[1] < 2^(31 - HB)
WNat(w) == w[1] * B + w[2]

WLt(a, b) == a[1] < b[1] \/ (a[1] = b[1] /\ a[2] < b[2])
WLe(a, b) == ~WLt(b, a)
WMinOf(a, b) == IF WLt(b, a) THEN b ELSE a

\* Addition with carry out: <<carry, sum mod 2^W>>.
WAddC(a, b) ==
    LET lo == a[2] + b[2]
        hi == a[1] + b[1] + (lo \div B)
    IN  <<hi \div B, <<hi % B, lo % B>>>>
WAdd(a, b) == WAddC(a, b)[2]                   \* wrapping
WInc(a) == WAdd(a, WOne)                       \* wrapping
WAddNat(a, n) == WAdd(a, WOfNat(n))            \* wrapping, n < 2^W, n < 2^31

\* a - b for b <= a.
WSub(a, b) ==
    LET borrow == IF a[2] < b[2] THEN 1 ELSE 0
    IN  <<a[1] - b[1] - borrow, a[2] + borrow * B - b[2]>>

\* Three-limb products by a small multiplier k (k * B < 2^31): the exact
\* product <<top, mid, lo>> with mid, lo < B and top unbounded.
W3Mul(a, k) ==
    LET l0 == a[2] * k
        l1 == a[1] * k + (l0 \div B)
    IN  <<l1 \div B, l1 % B, l0 % B>>
W3Le(x, y) ==
    \/ x[1] < y[1]
    \/ x[1] = y[1] /\ x[2] < y[2]
    \/ x[1] = y[1] /\ x[2] = y[2] /\ x[3] <= y[3]
\* a * k mod 2^W (what u32::wrapping_mul does).
WMulWrap(a, k) == LET p == W3Mul(a, k) IN <<p[2], p[3]>>

\* floor(num / d) for a three-limb numerator, a non-zero word divisor and a
\* quotient known to be at most K: the largest k in 0..K with k*d <= num.
W3DivSmall(num, d, K) ==
    LET S == {k \in 0..K : W3Le(W3Mul(d, k), num)}
    IN  CHOOSE k \in S : \A j \in S : j <= k

\* Division and remainder of a word by a small natural m (m * B < 2^31).
WDivSmall(w, m) ==
    LET qh == w[1] \div m
        r1 == w[1] % m
        lo == r1 * B + w[2]
    IN  <<qh, lo \div m>>
WModSmall(w, m) == ((w[1] % m) * (B % m) + w[2]) % m
\* a * k mod 2^W for a small natural k (alias of WMulWrap, for readability)
WScale(a, k) == WMulWrap(a, k)

\* Number of significant bits.
LimbBitLen(x) == CHOOSE k \in 0..HB : x < 2^k /\ (k = 0 \/ x >= 2^(k - 1))
WBitLen(w) == IF w[1] > 0 THEN HB + LimbBitLen(w[1]) ELSE LimbBitLen(w[2])

=============================================================================
