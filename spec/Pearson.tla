------------------------------ MODULE Pearson ------------------------------
(***************************************************************************)
(* Pearson hashing as TLSH uses it, and TLSH's bucket mapping.             *)
(***************************************************************************)
EXTENDS Naturals, Sequences, FiniteSets, Bitwise, Tables

Byte == 0..255

\* x XOR y on bytes, as a table computed once (TLC evaluates constant
\* definitions once; Bitwise!^^ has a Java override).
XorTab == [x \in Byte |-> [y \in Byte |-> x ^^ y]]
BXor(x, y) == XorTab[x][y]

PT(i) == PearsonTable[i + 1]
\* The folded table of the 48-bucket variant: x >= 240 -> 48, else x mod 48.
PT48(i) == IF PT(i) >= 240 THEN 48 ELSE PT(i) % 48

PInit(x)          == PT(BXor(0, x))
PUpd(st, x)       == PT(BXor(st, x))
PUpdDouble(st, x, y) == PUpd(PUpd(st, x), y)
PFinal256(st, x)  == PT(BXor(st, x))
PFinal48(st, x)   == PT48(BXor(st, x))

BMap256(s, x, y, z) == PFinal256(PUpdDouble(PInit(s), x, y), z)
BMap48(s, x, y, z)  == PFinal48(PUpdDouble(PInit(s), x, y), z)

\* Facts TLC checks when the module is loaded.
ASSUME Len(PearsonTable) = 256
ASSUME {PT(i) : i \in Byte} = Byte                     \* a permutation
ASSUME \A i \in Byte : PT48(i) \in 0..48               \* 49 values: 48 is "out of range"
ASSUME \A x, y \in {0, 1, 2, 85, 170, 254, 255} : BXor(x, y) = BXor(y, x) /\ BXor(x, x) = 0
ASSUME BXor(165, 90) = 255 /\ BXor(255, 15) = 240 /\ BXor(18, 52) = 38

=============================================================================
