CONSTANTS
    W = 32
    MANT = 24
    TopTab <- TopLimbs32
INIT Init
NEXT Next
