----------------------------- MODULE MCDistance -----------------------------
(***************************************************************************)
(* Laws of the distance (C08, C02) exhaustively: the parts over their full *)
(* domains (dibits 4x4, bytes 256x256, Q-ratio bytes 256x256, length codes *)
(* 256x256), and whole hashes over ALL pairs of toy hash values whose      *)
(* bytes range over a class set.                                           *)
(***************************************************************************)
EXTENDS Distance

CONSTANTS ByteClasses, ToyName
TV == IF ToyName = "Toy1" THEN VToy1 ELSE VToy3
N == SizeBytes(TV)

\* Part laws, checked when the module is loaded.
ASSUME \A x, y \in Byte : ByteDistTab[x][y] = ByteDistTab[y][x] /\ ByteDistTab[x][y] <= 24
                          /\ (ByteDistTab[x][y] = 0 <=> x = y)
ASSUME \A x, y \in Byte : QDist(x, y) = QDist(y, x) /\ QDist(x, y) <= 168 /\ (QDist(x, y) = 0 <=> x = y)
ASSUME \A x, y \in Byte : LDist(x, y) = LDist(y, x) /\ LDist(x, y) <= 1536 /\ (LDist(x, y) = 0 <=> x = y)
ASSUME \E x, y \in Byte : QDist(x, y) = 168
ASSUME \E x, y \in Byte : LDist(x, y) = 1536
ASSUME \A x, y \in 0..15 : QDist1(x, y) = (LET d == RingDist(x, y, 16) IN IF d <= 1 THEN d ELSE (d - 1) * 12)
ASSUME \A x, y \in Byte : LDist(x, y) = LDist((x + 77) % 256, (y + 77) % 256)       \* a function of the ring difference
ASSUME QDist1(0, 8) = 84 /\ QDist1(0, 15) = 1 /\ QDist1(3, 5) = 12 /\ LDist(0, 128) = 1536 /\ LDist(255, 0) = 1 /\ LDist(0, 2) = 24

VARIABLES a, b, k
vars == <<a, b, k>>
Init == a = [i \in 1..N |-> 0] /\ b = [i \in 1..N |-> 0] /\ k = 0
Choose == /\ k < N
          /\ \E x, y \in ByteClasses : a' = [a EXCEPT ![k + 1] = x] /\ b' = [b EXCEPT ![k + 1] = y]
          /\ k' = k + 1
Spec == Init /\ [][Choose]_vars

Laws ==
    k = N =>
    LET d == Dist(TV, a, b, FALSE)
        n == Dist(TV, a, b, TRUE)
        ca == HClearChecksum(TV, a)
        cb == HClearChecksum(TV, b) IN
    /\ Dist(TV, a, a, FALSE) = 0 /\ Dist(TV, a, a, TRUE) = 0                  \* reflexive
    /\ (d = 0 => a = b)                                                       \* zero only for equal hashes (default mode)
    /\ d = Dist(TV, b, a, FALSE) /\ n = Dist(TV, b, a, TRUE)                  \* symmetric
    /\ d <= MaxDist(TV, FALSE) /\ n <= MaxDist(TV, TRUE)                      \* bounded
    /\ d = n + LDist(HLenCode(TV, a), HLenCode(TV, b))                        \* default = no-length + length part
    /\ Dist(TV, ca, cb, FALSE) = d - CkDist(HChecksum(TV, a), HChecksum(TV, b))   \* clearing both checksums
    /\ Dist(TV, ca, cb, TRUE) = n - CkDist(HChecksum(TV, a), HChecksum(TV, b))
\* the bound is attained
ASSUME \A nl \in BOOLEAN : \A v \in {VToy1, VToy3} : Dist(v, MaxWitnessA(v), MaxWitnessB(v), nl) = MaxDist(v, nl)
=============================================================================
