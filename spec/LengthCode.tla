----------------------------- MODULE LengthCode -----------------------------
(***************************************************************************)
(* The length code: a monotone bucketing of the input length by a table    *)
(* of inclusive top values, and the published validity classification.     *)
(* TopTab is a constant so that the same text runs on the real 170-entry   *)
(* table (Tables!TopLimbs32, W = 32) and on scaled tables in small models. *)
(***************************************************************************)
EXTENDS Wide

CONSTANT TopTab          \* sequence of words, strictly increasing

NumCodes == Len(TopTab)
MaxLenW  == TopTab[NumCodes]                 \* the maximum data length (a word)

\* Code of a length (a word): the number of top values strictly below it;
\* -1 ("None") above the maximum.  Length 0 has code 0 by this definition too.
LenCode(n) ==
    IF WLt(MaxLenW, n) THEN -1
    ELSE Cardinality({i \in 1..NumCodes : WLt(TopTab[i], n)})

CodeValid(c) == c < NumCodes
\* Inclusive range of a code: <<lo, hi>> (words), or <<>> for invalid codes.
CodeRange(c) ==
    IF c >= NumCodes THEN <<>>
    ELSE IF c = 0 THEN <<WZero, TopTab[1]>>
    ELSE <<WInc(TopTab[c]), TopTab[c + 1]>>

\* Validity classification of a fed length.  n is a word, or WNone for
\* "2^W bytes or more" (which the implementation maps to 2^W - 1 > MAX).
LenValidity(n, min, minCons) ==
    IF n = WNone THEN "TooLarge"
    ELSE IF WLt(n, WOfNat(min)) THEN "TooSmall"
    ELSE IF WLt(n, WOfNat(minCons)) THEN "ValidWhenOptimistic"
    ELSE IF WLe(n, MaxLenW) THEN "Valid"
    ELSE "TooLarge"

ValidityIsErr(val) == val \in {"TooSmall", "TooLarge"}
ValidityIsErrOn(val, conservative) ==
    \/ val \in {"TooSmall", "TooLarge"}
    \/ val = "ValidWhenOptimistic" /\ conservative

\* Laws of the table itself (checked by MCLengthCode on the real table).
TopStrictlyIncreasing == \A i \in 1..(NumCodes - 1) : WLt(TopTab[i], TopTab[i + 1])
RangesTile ==
    /\ CodeRange(0)[1] = WZero
    /\ \A c \in 1..(NumCodes - 1) : CodeRange(c)[1] = WInc(CodeRange(c - 1)[2])
    /\ \A c \in 0..(NumCodes - 1) : WLe(CodeRange(c)[1], CodeRange(c)[2])
    /\ CodeRange(NumCodes - 1)[2] = MaxLenW
RangeEndsEncodeToCode ==
    \A c \in 0..(NumCodes - 1) :
        /\ LenCode(CodeRange(c)[1]) = c
        /\ LenCode(CodeRange(c)[2]) = c
InvalidCodesHaveNoRange == \A c \in NumCodes..255 : CodeRange(c) = <<>> /\ ~CodeValid(c)

=============================================================================
