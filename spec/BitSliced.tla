----------------------------- MODULE BitSliced -----------------------------
(***************************************************************************)
(* The A+B bit-sliced body distance as the back ends compute it            *)
(* (compare/dist_body/pseudo_simd_{32,64}.rs, x86_*.rs and                 *)
(* _docs/internal_simd_dist_body.md), transcribed operation by operation   *)
(* on an N-bit word with wrapping arithmetic, including the 2 -> 4 -> 8    *)
(* bit widenings and the horizontal byte sum.  Model checked to equal the  *)
(* declarative Distance!BodyDist.  N is 8, 16 or 24 here (TLC integers);   *)
(* the algorithm is lane-local beyond a byte, which is what the carry      *)
(* cases below exhaust.                                                    *)
(***************************************************************************)
EXTENDS Distance

Mod(n)        == 2 ^ n
Wrap(x, n)    == x % Mod(n)
Shl(x, k, n)  == Wrap(x * (2 ^ k), n)
Shr(x, k)     == x \div (2 ^ k)
WSubN(a, b, n) == Wrap(a + Mod(n) - b, n)
\* the byte pattern b repeated over an n-bit word
Rep(b, n)     == LET RECURSIVE R(_) R(k) == IF k = 0 THEN 0 ELSE R(k - 8) * 256 + b IN R(n)

SlicedSum(x, y, n) ==
    LET m01   == Rep(85, n)     \* 0b01010101
        m10   == Rep(170, n)    \* 0b10101010
        m0011 == Rep(51, n)     \* 0b00110011
        m0f   == Rep(15, n)     \* 0b00001111
        z   == x ^^ y
        ta1 == y & m01
        tb1 == x & m01
        ta2 == Wrap(Shl(ta1, 1, n) + ta1, n)            \* * 3
        tb2 == WSubN(m10, tb1, n)
        ta3 == ta2 ^^ x
        tb3 == tb2 ^^ x
        sa1 == ta3 & z                                    \* SUM 1, 2-bit sliced
        tb4 == tb3 & z
        ta4 == Shr(sa1, 2)
        sa2 == sa1 & m0011
        tb5 == Shr(tb4, 1)
        ta5 == ta4 & m0011
        tb6 == Wrap(Shl(tb5, 1, n) + tb5, n)            \* * 3
        sa3 == Wrap(sa2 + ta5, n)                        \* SUM 1, 4-bit sliced
        sb1 == tb6 & z                                    \* SUM 2, 2-bit sliced
        tb7 == Shr(sb1, 2)
        sb2 == sb1 & m0011
        tb8 == tb7 & m0011
        sb3 == Wrap(sb2 + tb8, n)                        \* SUM 2, 4-bit sliced
        s1  == Wrap(sa3 + sb3, n)                        \* 4-bit sliced, 0..12
        t1  == Shr(s1, 4)
        s2  == s1 & m0f
        t2  == t1 & m0f
    IN  Wrap(s2 + t2, n)                                  \* 8-bit sliced, 0..24

\* horizontal sum of the bytes
RECURSIVE ByteSum(_, _)
ByteSum(s, n) == IF n = 0 THEN 0 ELSE (s % 256) + ByteSum(s \div 256, n - 8)
SlicedDist(x, y, n) == ByteSum(SlicedSum(x, y, n), n)

\* the declarative distance of two n-bit words seen as little-endian byte strings
BytesOf(x, n) == [i \in 1..(n \div 8) |-> (x \div (256 ^ (i - 1))) % 256]
DeclDist(x, y, n) == BodyDist(BytesOf(x, n), BytesOf(y, n))

\* one byte: all 65 536 pairs
ASSUME \A x, y \in 0..255 : SlicedDist(x, y, 8) = ByteDistTab[x][y]
\* no leakage between lanes: every pair in one byte against extreme neighbours on either side
Backgrounds == {<<0, 0>>, <<255, 255>>, <<0, 255>>, <<255, 0>>, <<85, 170>>, <<170, 85>>}
ASSUME \A bg \in Backgrounds : \A x, y \in 0..255 :
          /\ SlicedDist(bg[1] * 256 + x, bg[2] * 256 + y, 16) = DeclDist(bg[1] * 256 + x, bg[2] * 256 + y, 16)
          /\ SlicedDist(x * 256 + bg[1], y * 256 + bg[2], 16) = DeclDist(x * 256 + bg[1], y * 256 + bg[2], 16)
\* three lanes, the middle one swept over a sub-grid, neighbours extreme
ASSUME \A bg \in Backgrounds : \A x, y \in {0, 1, 2, 3, 84, 85, 86, 127, 128, 170, 171, 252, 253, 254, 255} :
          LET X == (bg[1] * 256 + x) * 256 + bg[2]
              Y == (bg[2] * 256 + y) * 256 + bg[1] IN
          SlicedDist(X, Y, 24) = DeclDist(X, Y, 24)
=============================================================================
