CONSTANTS
    W = 32
    MANT = 24
    TopTab <- TopLimbs32
    ByteClasses = {0, 9, 10, 48, 49, 169, 170, 255}
    ToyName = "Toy1"
SPECIFICATION Spec
INVARIANT HashLaws
INVARIANT TextLaws
CHECK_DEADLOCK FALSE
