CONSTANTS
    W = 32
    MANT = 24
    TopTab <- TopLimbs32
    BufLen = 3
    MaxData = 6
    MaxInterrupts = 2
    Alphabet = {164, 14}
SPECIFICATION FairSpec
INVARIANT OutcomeCorrect
INVARIANT StateMatchesDelivered
INVARIANT BufferIsZerosOrDelivered
PROPERTY Terminates
CHECK_DEADLOCK FALSE
