--------------------------- MODULE LengthCodeApa ---------------------------
(***************************************************************************)
(* Apalache (unbounded integers) bridge between the human-readable decimal *)
(* table and the limb table TLC uses, and the monotone-bucketing law for   *)
(* SYMBOLIC lengths:                                                       *)
(*   - TopLimbs32[i] = <<TopDecimal[i] \div 65536, TopDecimal[i] % 65536>> *)
(*   - TopDecimal is strictly increasing and ends at 4 224 281 216         *)
(*   - for all 0 <= a <= b <= MAX: a and b have codes, unique, and          *)
(*     Code(a) <= Code(b); no code above MAX                                *)
(* checked as an invariant of a one-step system whose initial state picks  *)
(* a and b nondeterministically.                                           *)
(***************************************************************************)
EXTENDS Integers, Sequences, FiniteSets, TablesDecimal

VARIABLES
    \* @type: Int;
    a,
    \* @type: Int;
    b

N == 170
\* c is the code of n: the c-th top value (if any) is below n and n is at most
\* the next one.  For a strictly increasing table this is the counting
\* definition LengthCode!LenCode (number of top values strictly below n);
\* TLC checks that equivalence on every range end (MCLengthCode).  The
\* counting form itself (Cardinality of a 170-element filter) makes Apalache's
\* SMT encoding take > 10 minutes, this form a few seconds.
\* @type: (Int, Int) => Bool;
IsCode(n, c) == (c = 0 \/ TopDecimal[c] < n) /\ n <= TopDecimal[c + 1]

Init == a \in 0..4294967295 /\ b \in 0..4294967295
Next == UNCHANGED <<a, b>>

TableInv ==
    /\ Len(TopDecimal) = N /\ Len(TopLimbs32) = N
    /\ \A i \in 1..N : /\ TopLimbs32[i][1] * 65536 + TopLimbs32[i][2] = TopDecimal[i]
                       /\ TopLimbs32[i][1] \in 0..65535 /\ TopLimbs32[i][2] \in 0..65535
    /\ \A i \in 1..(N - 1) : TopDecimal[i] < TopDecimal[i + 1]
    /\ TopDecimal[1] = 1
    /\ TopDecimal[N] = 4224281216

MonotoneInv ==
    (a <= b /\ b <= TopDecimal[N]) =>
        /\ \E c \in 0..(N - 1) : IsCode(a, c)                              \* every length up to MAX has a code
        /\ \A ca, cb \in 0..(N - 1) : IsCode(a, ca) /\ IsCode(b, cb) => ca <= cb   \* unique and monotone
AboveMaxInv == a > TopDecimal[N] => \A c \in 0..(N - 1) : ~IsCode(a, c)

Inv == TableInv /\ MonotoneInv /\ AboveMaxInv
=============================================================================
