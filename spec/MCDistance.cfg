CONSTANTS
    W = 32
    MANT = 24
    TopTab <- TopLimbs32
    ByteClasses = {0, 1, 128, 255}
    ToyName = "Toy1"
SPECIFICATION Spec
INVARIANT Laws
CHECK_DEADLOCK FALSE
