CONSTANTS
    W = 6
    MANT = 3
    TopTab <- ScaledTop
    Pattern <- PatA
    PieceSizes = {0, 1, 2, 3, 4, 5, 9, 17, 33, 70}
    MaxN = 140
SPECIFICATION Spec
INVARIANT NoCounterLeavesTheWord
INVARIANT Refinement
INVARIANT ProcessedLenExact
INVARIANT TooLargeIffAboveMax
INVARIANT ReferenceUpToMax
INVARIANT TopCodeAtMax
PROPERTY FrozenAfterLimit
CHECK_DEADLOCK FALSE
