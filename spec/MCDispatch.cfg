CONSTANTS
    Threads = {t1, t2, t3}
    Cells = {"d32", "d64"}
    Backends = {"avx2", "sse41", "sse2", "pseudo"}
    Detected <- MDetected
    MaxCalls = 2
SPECIFICATION Spec
INVARIANT CellsWellFormed
INVARIANT AtMostOneInitialiser
INVARIANT SameFunction
INVARIANT CallsOnlyThroughReady
PROPERTY CellStableMC
PROPERTY AllReturn
CHECK_DEADLOCK FALSE
