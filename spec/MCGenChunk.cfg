CONSTANTS
    W = 32
    MANT = 24
    TopTab <- TopLimbs32
    Alphabet = {164, 14}
    MaxFed = 10
    VName = "Normal"
    EmitReplay = FALSE
    AllowClone = FALSE
SPECIFICATION Spec
VIEW StateView
INVARIANT Refinement
INVARIANT PlenExact
INVARIANT WellFormed
INVARIANT FinalizeIsReference
INVARIANT Lattice
INVARIANT ProducedValid
INVARIANT SomeHashProduced
CHECK_DEADLOCK FALSE
