----------------------------- MODULE Generator -----------------------------
(***************************************************************************)
(* The streaming generator as the state machine the code implements        *)
(* (fast-tlsh/src/generate.rs, inner::Generator): wrapping bucket          *)
(* counters, a length that saturates at 2^W - 4, a four byte tail carried  *)
(* between update calls, three tail code paths, a truncated crossing       *)
(* piece.  A generator is a record                                         *)
(*     [bk, len, ck, tail, tailLen]                                        *)
(* Update is split into the branches of the code so that coverage shows    *)
(* which paths a model or a trace exercised.                               *)
(***************************************************************************)
EXTENDS Reference

\* len saturates here: the first value for which len + 4 overflows a word.
MaxGenLen == <<B - 1, B - 4>>

GenNew(v) == [bk |-> BkZero(v), len |-> WZero, ck |-> CkZero(v),
              tail |-> <<0, 0, 0, 0>>, tailLen |-> 0]

GenWellFormed(v, g) ==
    /\ DOMAIN g.bk = 0..(v.nb - 1) /\ \A i \in DOMAIN g.bk : IsWord(g.bk[i])
    /\ IsWord(g.len) /\ WLe(g.len, MaxGenLen)
    /\ Len(g.ck) = v.ckLen /\ \A i \in 1..v.ckLen : g.ck[i] \in Byte
    /\ Len(g.tail) = 4 /\ \A i \in 1..4 : g.tail[i] \in Byte
    /\ g.tailLen \in 0..4
    /\ g.tailLen < 4 => g.len = WZero

\* processed_len(): len + tailLen, or WNone when that overflows the word.
GenProcessedLen(g) ==
    LET s == WAddC(g.len, WOfNat(g.tailLen)) IN IF s[1] = 1 THEN WNone ELSE s[2]

-----------------------------------------------------------------------------
(* Branch predicates of update(piece), in the order the code tests them.   *)

TailRoom(g) == 4 - g.tailLen
BrFillOnly(g, n)   == g.tailLen < 4 /\ n <= TailRoom(g)
\* after the (possible) fill:
RestLen(g, n)      == IF g.tailLen < 4 THEN n - TailRoom(g) ELSE n
BrIgnored(g, n)    == ~BrFillOnly(g, n) /\ WLe(MaxGenLen, g.len)
BrTruncated(g, n)  == ~BrFillOnly(g, n) /\ ~BrIgnored(g, n)
                      /\ WLt(WSub(MaxGenLen, g.len), WOfNat(RestLen(g, n)))
BrRun(g, n)        == ~BrFillOnly(g, n) /\ ~BrIgnored(g, n) /\ ~BrTruncated(g, n)

\* Feed `data` through the 5-byte window starting from a full tail.
RunWindow(v, g, data) ==
    LET base == [bk |-> g.bk, ck |-> g.ck, w |-> g.tail]
        r == FoldLeft(LAMBDA acc, b4 :
                 [bk |-> BkInc6(v, acc.bk,
                                WindowBuckets(v, acc.w[1], acc.w[2], acc.w[3], acc.w[4], b4)),
                  ck |-> CkUpdate(v, acc.ck, b4, acc.w[4]),
                  w  |-> <<acc.w[2], acc.w[3], acc.w[4], b4>>],
                 base, data)
        k == Len(data)
        newTail == IF k >= 4 THEN SubSeq(data, k - 3, k)                  \* full rewrite
                   ELSE SubSeq(g.tail, k + 1, 4) \o data                  \* shift and write
    IN  [g EXCEPT !.bk = r.bk, !.ck = r.ck, !.tail = newTail,
                  !.len = WAddNat(g.len, k)]

GenUpdate(v, g, piece) ==
    LET n == Len(piece) IN
    IF BrFillOnly(g, n)
    THEN [g EXCEPT !.tail = [i \in 1..4 |-> IF i > g.tailLen /\ i <= g.tailLen + n
                                            THEN piece[i - g.tailLen] ELSE g.tail[i]],
                   !.tailLen = g.tailLen + n]
    ELSE
      LET room == IF g.tailLen < 4 THEN TailRoom(g) ELSE 0
          g1 == [g EXCEPT !.tail = [i \in 1..4 |-> IF i > g.tailLen THEN piece[i - g.tailLen]
                                                   ELSE g.tail[i]],
                          !.tailLen = 4]
          rest == SubSeq(piece, room + 1, n)
      IN  IF BrIgnored(g, n) THEN g1
          ELSE IF BrTruncated(g, n)
               THEN RunWindow(v, g1, SubSeq(rest, 1, WNat(WSub(MaxGenLen, g.len))))
               ELSE RunWindow(v, g1, rest)

GenFinalize(v, g, o) == Finalize(v, g.bk, g.ck, GenProcessedLen(g), o)
GenFan(v, g)         == FinalizeFan(v, g.bk, g.ck, GenProcessedLen(g))

-----------------------------------------------------------------------------
(* Closed form for long periodic input (used to judge multi-MiB streams    *)
(* and multi-GiB histories without stepping TLC through every byte).       *)
(* The stream is pat repeated; `off` is the stream position (0-based) of   *)
(* the first byte delivered by this call, k the number of bytes.           *)

PeriodicData(pat, off, k) == [t \in 1..k |-> pat[((off + t - 1) % Len(pat)) + 1]]

\* Preconditions of the closed form: a full tail holding the four stream
\* bytes before `off`, a one-byte checksum, no saturation, k < 2^31.
PeriodicPre(v, g, pat, off, k) ==
    /\ g.tailLen = 4 /\ off >= 4 /\ v.ckLen = 1
    /\ g.tail = PeriodicData(pat, off - 4, 4)
    /\ WLe(WAddNat(g.len, k), MaxGenLen) /\ WLe(g.len, WAddNat(g.len, k))

\* Number of t in 0..k-1 with (off + t) % p = r.
ResidueCount(off, k, p, r) ==
    LET first == (((r - off) % p) + p) % p IN
    IF first >= k THEN 0 ELSE ((k - 1 - first) \div p) + 1

BkAddN(v, bk, i, n) == IF i < v.nb THEN [bk EXCEPT ![i] = WAddNat(@, n)] ELSE bk

\* First checksum byte after kW more periodic bytes (kW a word), starting at
\* residue o = off % p.  One full period is a map F on bytes (the first
\* checksum byte evolves on its own: c' = BMap(0, cur, prev, c)); kW div p
\* periods are F iterated by repeated squaring, the remaining kW % p bytes
\* are stepped.
CkStep(v, c, pat, pos) ==
    BMapOf(v, 0, pat[(pos % Len(pat)) + 1], pat[((pos + Len(pat) - 1) % Len(pat)) + 1], c)
PeriodMap(v, pat, o) ==
    FoldLeft(LAMBDA tab, t : [c \in 1..256 |-> CkStep(v, tab[c], pat, o + t)] \o <<>>,
             [c \in 1..256 |-> c - 1] \o <<>>, [t \in 1..Len(pat) |-> t - 1])
\* Byte maps as tuples (index c + 1).  `\\o <<>>` turns the lazily evaluated
\* function constructor into a concrete tuple, so that the squarings below
\* are computed once each (TLC would otherwise re-evaluate H[H[c]] recursively).
MapCompose(A, Bm) == [c \in 1..256 |-> A[Bm[c] + 1]] \o <<>>
MapIdentity == [c \in 1..256 |-> c - 1] \o <<>>
WordBit(w, i) == IF i < HB THEN (w[2] \div (2 ^ i)) % 2 ELSE (w[1] \div (2 ^ (i - HB))) % 2
\* F applied mW times, by repeated squaring over the bits of mW (least significant first)
MapPower(F, mW) ==
    FoldLeft(LAMBDA acc, i :
                 [res |-> IF WordBit(mW, i) = 1 THEN MapCompose(acc.sq, acc.res) ELSE acc.res,
                  sq  |-> MapCompose(acc.sq, acc.sq)],
             [res |-> MapIdentity, sq |-> F],
             [i \in 1..W |-> i - 1]).res
RECURSIVE CkIterate(_, _, _, _, _, _)
CkIterate(v, ck, pat, pos, n, dummy) ==
    IF n = 0 THEN ck
    ELSE CkIterate(v, CkUpdate(v, ck, pat[(pos % Len(pat)) + 1], pat[((pos + Len(pat) - 1) % Len(pat)) + 1]),
                   pat, pos + 1, n - 1, dummy)
Ck1AfterPeriodic(v, c0, pat, o, kW) ==
    LET p  == Len(pat)
        c1 == MapPower(PeriodMap(v, pat, o), WDivSmall(kW, p))[c0 + 1]
        RECURSIVE CkTail(_, _)
        CkTail(c, t) == IF t = WModSmall(kW, p) THEN c ELSE CkTail(CkStep(v, c, pat, o + t), t + 1)
    IN  CkTail(c1, 0)

\* Three-byte checksums: bytes 2 and 3 depend on byte 1, their joint cycle can be 2^24 long, so there
\* is no small period map; over MiB-scale deliveries the three bytes are simply stepped (three table
\* look-ups per input byte, no bucket work), which TLC does at about 40 000 bytes per second.
CkStepped(v, ck, pat, off, k) ==
    LET p == Len(pat) IN
    FoldLeft(LAMBDA c, t : CkUpdate(v, c, pat[((off + t) % p) + 1], pat[((off + t + p - 1) % p) + 1]),
             ck, [t \in 1..k |-> t - 1])

GenUpdatePeriodicClosed(v, g, pat, off, k) ==
    LET p  == Len(pat)
        win(r) == \* the window whose newest byte has residue r
            WindowBuckets(v, pat[((r - 4 + 4 * p) % p) + 1], pat[((r - 3 + 4 * p) % p) + 1],
                             pat[((r - 2 + 4 * p) % p) + 1], pat[((r - 1 + 4 * p) % p) + 1], pat[r + 1])
        addRes(bk, r) ==
            LET c == ResidueCount(off, k, p, r)
                ix == win(r) IN
            IF c = 0 THEN bk
            ELSE BkAddN(v, BkAddN(v, BkAddN(v, BkAddN(v, BkAddN(v, BkAddN(v, bk, ix[1], c), ix[2], c),
                                                      ix[3], c), ix[4], c), ix[5], c), ix[6], c)
        bk2 == FoldLeft(addRes, g.bk, [r \in 1..p |-> r - 1])
        newTail == IF k >= 4 THEN PeriodicData(pat, off + k - 4, 4)
                   ELSE SubSeq(g.tail, k + 1, 4) \o PeriodicData(pat, off, k)
    IN  [g EXCEPT !.bk = bk2,
                  !.ck = IF v.ckLen = 1 THEN <<Ck1AfterPeriodic(v, g.ck[1], pat, off % p, WOfNat(k))>>
                         ELSE CkStepped(v, g.ck, pat, off, k),
                  !.len = WAddNat(g.len, k),
                  !.tail = newTail]

\* k periodic bytes from any state: short deliveries and the first bytes of
\* a long one are stepped explicitly, the bulk goes through the closed form.
GenUpdatePeriodic(v, g, pat, off, k) ==
    IF k <= 16 THEN GenUpdate(v, g, PeriodicData(pat, off, k))
    ELSE LET g1 == GenUpdate(v, g, PeriodicData(pat, off, 8)) IN
         IF PeriodicPre(v, g1, pat, off + 8, k - 8)
         THEN GenUpdatePeriodicClosed(v, g1, pat, off + 8, k - 8)
         ELSE GenUpdate(v, g, PeriodicData(pat, off, k))

-----------------------------------------------------------------------------
(* The same closed form with WIDE position and count, for multi-GiB        *)
(* histories (C11): `off` and `n` are words, the length saturates, and the *)
(* crossing delivery is truncated exactly as GenUpdate truncates it.       *)
(* For three-byte checksums only the first byte (which evolves on its own) *)
(* is computed; the caller takes the other two from the observation.       *)

\* number of t in 0..n-1 with (off + t) % p = r, as a word
ResidueCountW(offW, nW, p, r) ==
    LET first == (((r - WModSmall(offW, p)) % p) + p) % p IN
    IF WLe(nW, WOfNat(first)) THEN WZero
    ELSE WInc(WDivSmall(WSub(WSub(nW, WOne), WOfNat(first)), p))

BkAddW(v, bk, i, w) == IF i < v.nb THEN [bk EXCEPT ![i] = WAdd(@, w)] ELSE bk

\* Preconditions: full tail holding the four stream bytes before `off`.
PeriodicPreW(v, g, pat, offW) ==
    /\ g.tailLen = 4
    /\ g.tail = [i \in 1..4 |-> pat[((WModSmall(offW, Len(pat)) + 4 * Len(pat) - 5 + i) % Len(pat)) + 1]]

GenUpdatePeriodicWide(v, g, pat, offW, nW, ckRest) ==
    IF WLe(MaxGenLen, g.len) THEN g                                    \* ignored at the limit
    ELSE
    LET p     == Len(pat)
        room  == WSub(MaxGenLen, g.len)
        kW    == WMinOf(nW, room)                                      \* the crossing delivery is truncated
        o     == WModSmall(offW, p)
        win(r) == WindowBuckets(v, pat[((r - 4 + 4 * p) % p) + 1], pat[((r - 3 + 4 * p) % p) + 1],
                                   pat[((r - 2 + 4 * p) % p) + 1], pat[((r - 1 + 4 * p) % p) + 1], pat[r + 1])
        addRes(bk, r) ==
            LET c == ResidueCountW(offW, kW, p, r)
                ix == win(r) IN
            BkAddW(v, BkAddW(v, BkAddW(v, BkAddW(v, BkAddW(v, BkAddW(v, bk, ix[1], c), ix[2], c),
                                                 ix[3], c), ix[4], c), ix[5], c), ix[6], c)
        endOff == o + WModSmall(kW, p)                                 \* position after the last byte, mod p (+ o)
        c1 == Ck1AfterPeriodic(v, g.ck[1], pat, o, kW)
    IN  [g EXCEPT !.bk = FoldLeft(addRes, g.bk, [r \in 1..p |-> r - 1]),
                  !.ck = IF v.ckLen = 1 THEN <<c1>> ELSE <<c1>> \o ckRest,
                  !.len = WAdd(g.len, kW),
                  !.tail = IF WLe(WOfNat(4), kW)
                           THEN [i \in 1..4 |-> pat[((endOff + 4 * p - 5 + i) % p) + 1]]
                           ELSE SubSeq(g.tail, WNat(kW) + 1, 4)
                                \o [i \in 1..WNat(kW) |-> pat[((o + i - 1) % p) + 1]]]

-----------------------------------------------------------------------------
(* The abstraction: the concrete state the reference assigns to the bytes  *)
(* fed so far.  Only the first 2^W bytes... precisely: the first           *)
(* (2^W - 4) + 4 bytes are ever counted.  `data` is an explicit sequence   *)
(* here, so its length is a TLC natural; in small models 2^W is small.     *)

AbsState(v, data) ==
    LET n     == Len(data)
        cap   == WNat(MaxGenLen) + 4           \* only meaningful when it fits (small W)
        eff   == IF WFitsNat(MaxGenLen) /\ n > cap THEN SubSeq(data, 1, cap) ELSE data
        k     == Len(eff)
    IN  [bk      |-> RefBuckets(v, eff),
         ck      |-> RefChecksum(v, eff),
         len     |-> IF k > 4 THEN WOfNat(k - 4) ELSE WZero,
         tail    |-> [i \in 1..4 |-> IF k >= 4 THEN eff[k - 4 + i]
                                     ELSE IF i <= k THEN eff[i] ELSE 0],
         tailLen |-> IF k >= 4 THEN 4 ELSE k]

\* The observable length of `n` fed bytes (n a TLC natural).
AbsProcessedLen(n) == IF WFitsNat(WMaxWord) /\ n > WNat(WMaxWord) THEN WNone ELSE WOfNat(n)

=============================================================================
