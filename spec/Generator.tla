----------------------------- MODULE Generator -----------------------------
(***************************************************************************)
(* The streaming generator as the state machine the code implements        *)
(* (fast-tlsh/src/generate.rs, inner::Generator): wrapping bucket          *)
(* counters, a length that saturates at 2^W - 4, a four byte tail carried  *)
(* between update calls, three tail code paths, a truncated crossing       *)
(* piece.  A generator is a record                                         *)
(*     [bk, len, ck, tail, tailLen]                                        *)
(* Update is split into the branches of the code so that coverage shows    *)
(* which paths a model or a trace exercised.                               *)
(***************************************************************************)
EXTENDS Reference

\* len saturates here: the first value for which len + 4 overflows a word.
MaxGenLen == <<B - 1, B - 4>>

GenNew(v) == [bk |-> BkZero(v), len |-> WZero, ck |-> CkZero(v),
              tail |-> <<0, 0, 0, 0>>, tailLen |-> 0]

GenWellFormed(v, g) ==
    /\ DOMAIN g.bk = 0..(v.nb - 1) /\ \A i \in DOMAIN g.bk : IsWord(g.bk[i])
    /\ IsWord(g.len) /\ WLe(g.len, MaxGenLen)
    /\ Len(g.ck) = v.ckLen /\ \A i \in 1..v.ckLen : g.ck[i] \in Byte
    /\ Len(g.tail) = 4 /\ \A i \in 1..4 : g.tail[i] \in Byte
    /\ g.tailLen \in 0..4
    /\ g.tailLen < 4 => g.len = WZero

\* processed_len(): len + tailLen, or WNone when that overflows the word.
GenProcessedLen(g) ==
    LET s == WAddC(g.len, WOfNat(g.tailLen)) IN IF s[1] = 1 THEN WNone ELSE s[2]

-----------------------------------------------------------------------------
(* Branch predicates of update(piece), in the order the code tests them.   *)

TailRoom(g) == 4 - g.tailLen
BrFillOnly(g, n)   == g.tailLen < 4 /\ n <= TailRoom(g)
\* after the (possible) fill:
RestLen(g, n)      == IF g.tailLen < 4 THEN n - TailRoom(g) ELSE n
BrIgnored(g, n)    == ~BrFillOnly(g, n) /\ WLe(MaxGenLen, g.len)
BrTruncated(g, n)  == ~BrFillOnly(g, n) /\ ~BrIgnored(g, n)
                      /\ WLt(WSub(MaxGenLen, g.len), WOfNat(RestLen(g, n)))
BrRun(g, n)        == ~BrFillOnly(g, n) /\ ~BrIgnored(g, n) /\ ~BrTruncated(g, n)

\* Feed `data` through the 5-byte window starting from a full tail.
RunWindow(v, g, data) ==
    LET base == [bk |-> g.bk, ck |-> g.ck, w |-> g.tail]
        r == FoldLeft(LAMBDA acc, b4 :
                 [bk |-> BkInc6(v, acc.bk,
                                WindowBuckets(v, acc.w[1], acc.w[2], acc.w[3], acc.w[4], b4)),
                  ck |-> CkUpdate(v, acc.ck, b4, acc.w[4]),
                  w  |-> <<acc.w[2], acc.w[3], acc.w[4], b4>>],
                 base, data)
        k == Len(data)
        newTail == IF k >= 4 THEN SubSeq(data, k - 3, k)                  \* full rewrite
                   ELSE SubSeq(g.tail, k + 1, 4) \o data                  \* shift and write
    IN  [g EXCEPT !.bk = r.bk, !.ck = r.ck, !.tail = newTail,
                  !.len = WAddNat(g.len, k)]

GenUpdate(v, g, piece) ==
    LET n == Len(piece) IN
    IF BrFillOnly(g, n)
    THEN [g EXCEPT !.tail = [i \in 1..4 |-> IF i > g.tailLen /\ i <= g.tailLen + n
                                            THEN piece[i - g.tailLen] ELSE g.tail[i]],
                   !.tailLen = g.tailLen + n]
    ELSE
      LET room == IF g.tailLen < 4 THEN TailRoom(g) ELSE 0
          g1 == [g EXCEPT !.tail = [i \in 1..4 |-> IF i > g.tailLen THEN piece[i - g.tailLen]
                                                   ELSE g.tail[i]],
                          !.tailLen = 4]
          rest == SubSeq(piece, room + 1, n)
      IN  IF BrIgnored(g, n) THEN g1
          ELSE IF BrTruncated(g, n)
               THEN RunWindow(v, g1, SubSeq(rest, 1, WNat(WSub(MaxGenLen, g.len))))
               ELSE RunWindow(v, g1, rest)

GenFinalize(v, g, o) == Finalize(v, g.bk, g.ck, GenProcessedLen(g), o)
GenFan(v, g)         == FinalizeFan(v, g.bk, g.ck, GenProcessedLen(g))

-----------------------------------------------------------------------------
(* Closed form for long periodic input (used to judge multi-MiB streams    *)
(* and multi-GiB histories without stepping TLC through every byte).       *)
(* The stream is pat repeated; `off` is the stream position (0-based) of   *)
(* the first byte delivered by this call, k the number of bytes.           *)

PeriodicData(pat, off, k) == [t \in 1..k |-> pat[((off + t - 1) % Len(pat)) + 1]]

\* Preconditions of the closed form: a full tail holding the four stream
\* bytes before `off`, a one-byte checksum, no saturation, k < 2^31.
PeriodicPre(v, g, pat, off, k) ==
    /\ g.tailLen = 4 /\ off >= 4 /\ v.ckLen = 1
    /\ g.tail = PeriodicData(pat, off - 4, 4)
    /\ WLe(WAddNat(g.len, k), MaxGenLen) /\ WLe(g.len, WAddNat(g.len, k))

\* Number of t in 0..k-1 with (off + t) % p = r.
ResidueCount(off, k, p, r) ==
    LET first == (((r - off) % p) + p) % p IN
    IF first >= k THEN 0 ELSE ((k - 1 - first) \div p) + 1

BkAddN(v, bk, i, n) == IF i < v.nb THEN [bk EXCEPT ![i] = WAddNat(@, n)] ELSE bk

\* Checksum after k more bytes, by cycle detection on <<checksum, residue>>
\* (at most 256 * p distinct states).
RECURSIVE CkIterate(_, _, _, _, _, _)
CkIterate(v, ck, pat, pos, n, dummy) ==
    IF n = 0 THEN ck
    ELSE CkIterate(v, CkUpdate(v, ck, pat[(pos % Len(pat)) + 1], pat[((pos - 1) % Len(pat)) + 1]),
                   pat, pos + 1, n - 1, dummy)
RECURSIVE CkOrbit(_, _, _, _, _, _, _)
CkOrbit(v, ck, pat, off, t, k, seen) ==
    IF t = k THEN ck
    ELSE LET key == <<ck[1], (off + t) % Len(pat)>> IN
         IF key \in DOMAIN seen
         THEN LET lambda == t - seen[key] IN
              CkIterate(v, ck, pat, off + t, (k - t) % lambda, 0)
         ELSE CkOrbit(v, CkUpdate(v, ck, pat[((off + t) % Len(pat)) + 1], pat[((off + t - 1) % Len(pat)) + 1]),
                      pat, off, t + 1, k, seen @@ (key :> t))

GenUpdatePeriodicClosed(v, g, pat, off, k) ==
    LET p  == Len(pat)
        win(r) == \* the window whose newest byte has residue r
            WindowBuckets(v, pat[((r - 4 + 4 * p) % p) + 1], pat[((r - 3 + 4 * p) % p) + 1],
                             pat[((r - 2 + 4 * p) % p) + 1], pat[((r - 1 + 4 * p) % p) + 1], pat[r + 1])
        addRes(bk, r) ==
            LET c == ResidueCount(off, k, p, r)
                ix == win(r) IN
            IF c = 0 THEN bk
            ELSE BkAddN(v, BkAddN(v, BkAddN(v, BkAddN(v, BkAddN(v, BkAddN(v, bk, ix[1], c), ix[2], c),
                                                      ix[3], c), ix[4], c), ix[5], c), ix[6], c)
        bk2 == FoldLeft(addRes, g.bk, [r \in 1..p |-> r - 1])
        newTail == IF k >= 4 THEN PeriodicData(pat, off + k - 4, 4)
                   ELSE SubSeq(g.tail, k + 1, 4) \o PeriodicData(pat, off, k)
    IN  [g EXCEPT !.bk = bk2,
                  !.ck = CkOrbit(v, g.ck, pat, off, 0, k, <<>>),
                  !.len = WAddNat(g.len, k),
                  !.tail = newTail]

\* k periodic bytes from any state: short deliveries and the first bytes of
\* a long one are stepped explicitly, the bulk goes through the closed form.
GenUpdatePeriodic(v, g, pat, off, k) ==
    IF k <= 16 \/ v.ckLen # 1 THEN GenUpdate(v, g, PeriodicData(pat, off, k))
    ELSE LET g1 == GenUpdate(v, g, PeriodicData(pat, off, 8)) IN
         IF PeriodicPre(v, g1, pat, off + 8, k - 8)
         THEN GenUpdatePeriodicClosed(v, g1, pat, off + 8, k - 8)
         ELSE GenUpdate(v, g, PeriodicData(pat, off, k))

-----------------------------------------------------------------------------
(* The abstraction: the concrete state the reference assigns to the bytes  *)
(* fed so far.  Only the first 2^W bytes... precisely: the first           *)
(* (2^W - 4) + 4 bytes are ever counted.  `data` is an explicit sequence   *)
(* here, so its length is a TLC natural; in small models 2^W is small.     *)

AbsState(v, data) ==
    LET n     == Len(data)
        cap   == WNat(MaxGenLen) + 4           \* only meaningful when it fits (small W)
        eff   == IF WFitsNat(MaxGenLen) /\ n > cap THEN SubSeq(data, 1, cap) ELSE data
        k     == Len(eff)
    IN  [bk      |-> RefBuckets(v, eff),
         ck      |-> RefChecksum(v, eff),
         len     |-> IF k > 4 THEN WOfNat(k - 4) ELSE WZero,
         tail    |-> [i \in 1..4 |-> IF k >= 4 THEN eff[k - 4 + i]
                                     ELSE IF i <= k THEN eff[i] ELSE 0],
         tailLen |-> IF k >= 4 THEN 4 ELSE k]

\* The observable length of `n` fed bytes (n a TLC natural).
AbsProcessedLen(n) == IF WFitsNat(WMaxWord) /\ n > WNat(WMaxWord) THEN WNone ELSE WOfNat(n)

=============================================================================
