CONSTANTS
    W = 32
    MANT = 24
    TopTab <- TopLimbs32
SPECIFICATION TraceSpec
POSTCONDITION TraceAccepted
CHECK_DEADLOCK FALSE
