CONSTANTS
    W = 32
    TopTab <- TopLimbs32
SPECIFICATION TraceSpec
POSTCONDITION TraceAccepted
CHECK_DEADLOCK FALSE
