------------------------------ MODULE Variant ------------------------------
(***************************************************************************)
(* The five hash variants of fast-tlsh, and toy variants used only for     *)
(* exhaustive model checking of the codec and distance laws.               *)
(***************************************************************************)
EXTENDS Naturals, Sequences

\* map: which bucket mapping feeds the buckets and the first checksum byte.
VShort    == [name |-> "Short",  nb |-> 48,  ckLen |-> 1, map |-> "p48",
              minNz |-> 18,  min |-> 10, minCons |-> 10]
VNormal   == [name |-> "Normal", nb |-> 128, ckLen |-> 1, map |-> "p256",
              minNz |-> 65,  min |-> 50, minCons |-> 128]
VNormalLC == [name |-> "NormalWithLongChecksum", nb |-> 128, ckLen |-> 3, map |-> "p256",
              minNz |-> 65,  min |-> 50, minCons |-> 128]
VLong     == [name |-> "Long",   nb |-> 256, ckLen |-> 1, map |-> "p256",
              minNz |-> 129, min |-> 50, minCons |-> 128]
VLongLC   == [name |-> "LongWithLongChecksum", nb |-> 256, ckLen |-> 3, map |-> "p256",
              minNz |-> 129, min |-> 50, minCons |-> 128]

RealVariants == {VShort, VNormal, VNormalLC, VLong, VLongLC}
VariantByName(s) == CHOOSE v \in RealVariants : v.name = s

\* Toy variants: 8 buckets (2 body bytes), checksum of 1 or 3 bytes.
VToy1 == [name |-> "Toy1", nb |-> 8, ckLen |-> 1, map |-> "p48",
          minNz |-> 5, min |-> 3, minCons |-> 5]
VToy3 == [name |-> "Toy3", nb |-> 8, ckLen |-> 3, map |-> "p256",
          minNz |-> 5, min |-> 3, minCons |-> 5]

BodyLen(v)   == v.nb \div 4
SizeBytes(v) == v.ckLen + 2 + BodyLen(v)
LenStrNoPrefix(v) == 2 * SizeBytes(v)
LenStr(v)    == 2 * SizeBytes(v) + 2

ASSUME \A v \in RealVariants : v.nb % 4 = 0
ASSUME SizeBytes(VShort) = 15 /\ SizeBytes(VNormal) = 35 /\ SizeBytes(VNormalLC) = 37
ASSUME SizeBytes(VLong) = 67 /\ SizeBytes(VLongLC) = 69
ASSUME LenStr(VNormal) = 72 /\ LenStr(VShort) = 32 /\ LenStr(VLongLC) = 140

=============================================================================
