--------------------------- MODULE MCStreamReplay ---------------------------
(***************************************************************************)
(* Specification -> implementation for the stream helpers (C12, C17).      *)
(* Every reader script of at most MaxSteps answers over                    *)
(*    deliver one of four fixed pieces | claim n bytes without writing     *)
(*    them | Interrupted | a hard error | EOF | claim more than the buffer *)
(* is a behaviour of this model; each complete behaviour is printed as one *)
(* REPLAY line (the script and the outcome Stream.tla assigns to it) and   *)
(* the harness runs the real hash_stream against a reader following that   *)
(* script: same outcome, and exactly one read call per answer.             *)
(* The pieces are long enough for hashes (not only TooSmallInput) to be    *)
(* outcomes.  `script` and `delivered` are history variables; the model    *)
(* is a tree by construction (one state per script prefix).                *)
(***************************************************************************)
EXTENDS Stream, Json

CONSTANTS VName, MaxSteps, MaxInts

VARIABLES st, script, delivered, ints
vars == <<st, script, delivered, ints>>

SV == VariantByName(VName)

PieceOf(seed, n) == [i \in 1..n |-> (i * 37 + seed * 11 + ((i * i) % 23) * seed) % 256]
Pieces   == {PieceOf(3, 64), PieceOf(7, 37), PieceOf(5, 5), PieceOf(9, 1)}
LieLens  == {3, 40}
ErrKinds == {"Other", "UnexpectedEof"}

Ans(k, d, n, e) == [k |-> k, d |-> d, n |-> n, e |-> e]
Continuing  == {Ans("ok", p, 0, "") : p \in Pieces} \cup {Ans("lie", <<>>, n, "") : n \in LieLens}
                 \cup {Ans("int", <<>>, 0, "")}
Terminating == {Ans("err", <<>>, 0, e) : e \in ErrKinds} \cup {Ans("eof", <<>>, 0, ""), Ans("mis", <<>>, 0, "")}

Apply(s, a) ==
    CASE a.k = "ok"  -> SReadOk(SV, s, a.d)
      [] a.k = "lie" -> SReadLie(SV, s, a.n)
      [] a.k = "int" -> SReadInterrupted(SV, s)
      [] a.k = "err" -> SReadErr(SV, s, a.e)
      [] a.k = "eof" -> SReadEof(SV, s)
      [] a.k = "mis" -> SReadMisreport(SV, s)

Handed(s, a) == IF a.k = "ok" THEN a.d ELSE IF a.k = "lie" THEN BufPrefix(s.buf, a.n) ELSE <<>>

Init == st = StreamStart(SV) /\ script = <<>> /\ delivered = <<>> /\ ints = 0

Answer(a) ==
    /\ st.pc = "Reading"
    /\ a.k = "int" => ints < MaxInts
    /\ st' = Apply(st, a)
    /\ script' = Append(script, a)
    /\ delivered' = delivered \o Handed(st, a)
    /\ ints' = IF a.k = "int" THEN ints + 1 ELSE ints

Next == \/ \E a \in Terminating : Answer(a)
        \/ Len(script) < MaxSteps - 1 /\ \E a \in Continuing : Answer(a)

Spec == Init /\ [][Next]_vars

Done == st.pc = "Done"
LastAns == script[Len(script)]

\* the law of C12 on every complete script
OutcomeCorrect ==
    Done => CASE LastAns.k = "eof" -> st.outcome = [kind |-> "Hash", r |-> RefHash(SV, delivered, DefaultOptions)]
              [] LastAns.k = "mis" -> st.outcome = [kind |-> "Panic"]
              [] OTHER          -> st.outcome = [kind |-> "IOError", e |-> LastAns.e]
StateMatchesDelivered == st.sg = AbsState(SV, delivered)


ReplayLine ==
    Done => PrintT("REPLAY " \o ToJson([v |-> VName, script |-> script, outcome |-> st.outcome]))
=============================================================================
