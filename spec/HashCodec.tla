----------------------------- MODULE HashCodec -----------------------------
(***************************************************************************)
(* Hash values and their two external forms.                               *)
(*                                                                         *)
(* A hash value of variant v is its byte image h (a sequence of            *)
(* SizeBytes(v) bytes): checksum, length code, Q-ratio byte (Q2 in the     *)
(* high nibble), body.  The hex form writes the header bytes (checksum,    *)
(* length, Q ratios) low nibble first and the body bytes plainly, in       *)
(* upper case, optionally after "T1".  Texts are sequences of byte values. *)
(***************************************************************************)
EXTENDS Reference

HdrLen(v) == v.ckLen + 2
IsHashValue(v, h) == Len(h) = SizeBytes(v) /\ \A i \in 1..Len(h) : h[i] \in Byte

\* Accessors.
HChecksum(v, h) == SubSeq(h, 1, v.ckLen)
HLenCode(v, h)  == h[v.ckLen + 1]
HQByte(v, h)    == h[v.ckLen + 2]
HQ1(v, h)       == HQByte(v, h) % 16
HQ2(v, h)       == HQByte(v, h) \div 16
HBody(v, h)     == SubSeq(h, v.ckLen + 3, SizeBytes(v))
\* Quartile (dibit) of bucket i: byte len-1-i/4 of the body, bits 2*(i%4).
HQuartile(v, h, i) ==
    LET b == HBody(v, h)[BodyLen(v) - (i \div 4)] IN (b \div (4 ^ (i % 4))) % 4
HClearChecksum(v, h) == [i \in 1..SizeBytes(v) |-> IF i <= v.ckLen THEN 0 ELSE h[i]]

\* Validity conditions of the strict parser.
CkValid(v, h)  == v.map = "p48" => h[1] <= 48
LvValid(v, h)  == CodeValid(HLenCode(v, h))
StrictValid(v, h) == CkValid(v, h) /\ LvValid(v, h)

-----------------------------------------------------------------------------
(* Text.                                                                   *)

ChT == 84
Ch1 == 49
HexUpper(n) == IF n < 10 THEN 48 + n ELSE 55 + n
HexVal(c) ==
    IF c >= 48 /\ c <= 57 THEN c - 48
    ELSE IF c >= 65 /\ c <= 70 THEN c - 55
    ELSE IF c >= 97 /\ c <= 102 THEN c - 87
    ELSE -1
IsHexDigit(c) == HexVal(c) >= 0
UpperOf(c) == IF c >= 97 /\ c <= 102 THEN c - 32 ELSE c

ToHexNoPrefix(v, h) ==
    [k \in 1..(2 * SizeBytes(v)) |->
        LET i     == (k + 1) \div 2
            first == k % 2 = 1
            hi    == h[i] \div 16
            lo    == h[i] % 16
        IN  IF i <= HdrLen(v)
            THEN HexUpper(IF first THEN lo ELSE hi)       \* header: nibble-swapped
            ELSE HexUpper(IF first THEN hi ELSE lo)]
ToHex(v, h, withPrefix) ==
    IF withPrefix THEN <<ChT, Ch1>> \o ToHexNoPrefix(v, h) ELSE ToHexNoPrefix(v, h)

PrefixModes == {"None", "Empty", "WithVersion"}
\* The prefix mode a text is parsed under ("Bad" = no mode fits its length).
EffMode(v, s, mode) ==
    IF mode = "None"
    THEN IF Len(s) = LenStrNoPrefix(v) THEN "Empty"
         ELSE IF Len(s) = LenStr(v) THEN "WithVersion" ELSE "Bad"
    ELSE mode
HexLengthOk(v, s, mode) ==
    \/ EffMode(v, s, mode) = "Empty" /\ Len(s) = LenStrNoPrefix(v)
    \/ EffMode(v, s, mode) = "WithVersion" /\ Len(s) = LenStr(v)
HexPrefixOk(v, s, mode) ==
    EffMode(v, s, mode) = "WithVersion" => (s[1] = ChT /\ s[2] = Ch1)
HexDigitsOf(v, s, mode) ==
    IF EffMode(v, s, mode) = "WithVersion" THEN SubSeq(s, 3, Len(s)) ELSE s
HexDigitsOk(v, s, mode) == \A i \in 1..Len(HexDigitsOf(v, s, mode)) : IsHexDigit(HexDigitsOf(v, s, mode)[i])
HexWellFormed(v, s, mode) ==
    HexLengthOk(v, s, mode) /\ HexPrefixOk(v, s, mode) /\ HexDigitsOk(v, s, mode)

\* The value denoted by 2*SizeBytes(v) hex digits d.
HexDecode(v, d) ==
    [i \in 1..SizeBytes(v) |->
        IF i <= HdrLen(v) THEN HexVal(d[2 * i - 1]) + 16 * HexVal(d[2 * i])
                          ELSE 16 * HexVal(d[2 * i - 1]) + HexVal(d[2 * i])]

\* Field of the digit at position k (1-based) of the digit part.
FieldDigitsOk(d, from, to) == \A i \in from..to : IsHexDigit(d[i])

\* Errors that actually apply to a text (the property leaves open which one
\* of several is reported, except that a wrong length is always that).
ApplicableParseErrors(v, s, mode, strict) ==
    IF ~HexLengthOk(v, s, mode) THEN {"InvalidStringLength"}
    ELSE LET d == HexDigitsOf(v, s, mode) IN
         (IF ~HexPrefixOk(v, s, mode) THEN {"InvalidPrefix"} ELSE {})
         \cup (IF ~HexDigitsOk(v, s, mode) THEN {"InvalidCharacter"} ELSE {})
         \cup (IF strict /\ FieldDigitsOk(d, 1, 2 * v.ckLen)
                  /\ v.map = "p48" /\ HexVal(d[1]) + 16 * HexVal(d[2]) > 48
               THEN {"InvalidChecksum"} ELSE {})
         \cup (IF strict /\ FieldDigitsOk(d, 2 * v.ckLen + 1, 2 * v.ckLen + 2)
                  /\ ~CodeValid(HexVal(d[2 * v.ckLen + 1]) + 16 * HexVal(d[2 * v.ckLen + 2]))
               THEN {"LengthIsTooLarge"} ELSE {})

HexAccepted(v, s, mode, strict) ==
    HexWellFormed(v, s, mode)
    /\ (strict => StrictValid(v, HexDecode(v, HexDigitsOf(v, s, mode))))

\* Is result r (a [ok, err, h] record) an allowed outcome of parsing s?
ParseHexAllows(v, s, mode, strict, r) ==
    IF HexAccepted(v, s, mode, strict)
    THEN r.ok /\ r.h = HexDecode(v, HexDigitsOf(v, s, mode))
    ELSE ~r.ok /\ r.err \in ApplicableParseErrors(v, s, mode, strict)

\* What the code does today (first failing gate in its order); model checked
\* to lie within ApplicableParseErrors, never used to judge traces.
ImplParseError(v, s, mode, strict) ==
    IF ~HexLengthOk(v, s, mode) THEN "InvalidStringLength"
    ELSE IF ~HexPrefixOk(v, s, mode) THEN "InvalidPrefix"
    ELSE LET d == HexDigitsOf(v, s, mode)
             c == 2 * v.ckLen IN
         IF ~FieldDigitsOk(d, 1, c) THEN "InvalidCharacter"
         ELSE IF strict /\ v.map = "p48" /\ HexVal(d[1]) + 16 * HexVal(d[2]) > 48 THEN "InvalidChecksum"
         ELSE IF ~FieldDigitsOk(d, c + 1, c + 2) THEN "InvalidCharacter"
         ELSE IF strict /\ ~CodeValid(HexVal(d[c + 1]) + 16 * HexVal(d[c + 2])) THEN "LengthIsTooLarge"
         ELSE IF ~FieldDigitsOk(d, c + 3, Len(d)) THEN "InvalidCharacter"
         ELSE ""

-----------------------------------------------------------------------------
(* Bytes.                                                                  *)

ApplicableBytesErrors(v, b, strict) ==
    IF Len(b) # SizeBytes(v) THEN {"InvalidStringLength"}
    ELSE (IF strict /\ ~CkValid(v, b) THEN {"InvalidChecksum"} ELSE {})
         \cup (IF strict /\ ~LvValid(v, b) THEN {"LengthIsTooLarge"} ELSE {})
BytesAccepted(v, b, strict) == Len(b) = SizeBytes(v) /\ (strict => StrictValid(v, b))
FromBytesAllows(v, b, strict, r) ==
    IF BytesAccepted(v, b, strict) THEN r.ok /\ r.h = b
    ELSE ~r.ok /\ r.err \in ApplicableBytesErrors(v, b, strict)

\* Storing into a caller's buffer of length L: the size needed per form.
FormSize(v, form) ==
    CASE form = "bytes" -> SizeBytes(v)
      [] form = "hex"   -> LenStrNoPrefix(v)
      [] form = "hexp"  -> LenStr(v)
FormRepr(v, h, form) ==
    CASE form = "bytes" -> h
      [] form = "hex"   -> ToHex(v, h, FALSE)
      [] form = "hexp"  -> ToHex(v, h, TRUE)

=============================================================================
