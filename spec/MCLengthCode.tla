---------------------------- MODULE MCLengthCode ----------------------------
(* Laws of the length table itself, on the real 170-entry table (W = 32).  *)
EXTENDS LengthCode, Tables, TLC

\* Lengths next to every boundary: the code never decreases and the range of
\* the code contains the length.
Probe == UNION {{CodeRange(c)[1], CodeRange(c)[2], WInc(CodeRange(c)[2])} : c \in 0..(NumCodes - 1)}
        \cup {WZero, WOne, WMaxWord}
ProbeCode == [a \in Probe |-> LenCode(a)]
MonotoneOnProbe == \A a, b \in Probe : WLe(a, b) /\ ProbeCode[b] # -1 => ProbeCode[a] <= ProbeCode[b]
RangeContains == \A a \in Probe : ProbeCode[a] # -1 =>
                     WLe(CodeRange(ProbeCode[a])[1], a) /\ WLe(a, CodeRange(ProbeCode[a])[2])
EncodesIffAtMostMax == \A a \in Probe : (ProbeCode[a] # -1) <=> WLe(a, MaxLenW)

ASSUME NumCodes = 170
ASSUME MaxLenW = <<64457, 27264>>          \* 4 224 281 216 = 64457 * 65536 + 27264
ASSUME TopStrictlyIncreasing
ASSUME RangesTile
ASSUME RangeEndsEncodeToCode
ASSUME InvalidCodesHaveNoRange
ASSUME MonotoneOnProbe
ASSUME RangeContains
ASSUME EncodesIffAtMostMax
\* The formulas the first 22 entries are documented to follow.
ASSUME \A i \in 1..16 : WNat(TopTab[i]) = (3 ^ i) \div (2 ^ i)                 \* floor(1.5^i)
ASSUME \A k \in 1..5 : WNat(TopTab[16 + k]) = (657 * 13 ^ k) \div (10 ^ k)     \* floor(657 * 1.3^k)

VARIABLE x
Init == x = 0
Next == UNCHANGED x
=============================================================================
