-------------------------------- MODULE F32 --------------------------------
(***************************************************************************)
(* IEEE-754 binary floating point with a MANT-bit significand (24 for      *)
(* binary32), as far as the legacy TLSH Q-ratio formula needs it:          *)
(*     ((q.wrapping_mul(100) as f32) / (q3 as f32)) as u32 % 16            *)
(* - conversion of a word to float, round to nearest, ties to even;        *)
(* - correctly rounded division;                                           *)
(* - saturating truncation to a word, of which only `mod 16` is needed.    *)
(* A float is [m, e] meaning m * 2^e with 2^(MANT-1) <= m < 2^MANT, or     *)
(* m = 0.  Everything is exact integer arithmetic on numbers < 2^(MANT+1). *)
(* Exponent range and subnormals are irrelevant: operands are integers     *)
(* below 2^W and quotients of two such integers.                           *)
(* Requires W - MANT <= W/2 (the rounding shift fits one limb).            *)
(***************************************************************************)
EXTENDS Wide

CONSTANT MANT

FZero == [m |-> 0, e |-> 0]

FOfWord(w) ==
    LET n == WBitLen(w) IN
    IF n = 0 THEN FZero
    ELSE IF n <= MANT THEN [m |-> WNat(w) * 2^(MANT - n), e |-> n - MANT]
    ELSE LET s    == n - MANT
             top  == w[1] * 2^(HB - s) + (w[2] \div 2^s)
             rem  == w[2] % 2^s
             half == 2^(s - 1)
             up   == rem > half \/ (rem = half /\ top % 2 = 1)
             m1   == IF up THEN top + 1 ELSE top
         IN  IF m1 = 2^MANT THEN [m |-> 2^(MANT - 1), e |-> s + 1]
                            ELSE [m |-> m1, e |-> s]

\* n steps of restoring division: <<floor(r * 2^n / d) + q * 2^n, remainder>>, r < d.
RECURSIVE FDivStep(_, _, _, _)
FDivStep(r, d, n, q) ==
    IF n = 0 THEN <<q, r>>
    ELSE LET r2 == 2 * r IN
         IF r2 >= d THEN FDivStep(r2 - d, d, n - 1, 2 * q + 1)
                    ELSE FDivStep(r2, d, n - 1, 2 * q)

\* Correctly rounded a / b (b # 0).
FDiv(a, b) ==
    IF a.m = 0 THEN FZero
    ELSE LET ge == a.m >= b.m
             qr == IF ge THEN FDivStep(a.m - b.m, b.m, MANT - 1, 1)
                         ELSE FDivStep(a.m, b.m, MANT, 0)
             e0 == IF ge THEN a.e - b.e - (MANT - 1) ELSE a.e - b.e - MANT
             Q  == qr[1]
             R  == qr[2]
             up == 2 * R > b.m \/ (2 * R = b.m /\ Q % 2 = 1)
             Q1 == IF up THEN Q + 1 ELSE Q
         IN  IF Q1 = 2^MANT THEN [m |-> 2^(MANT - 1), e |-> e0 + 1]
                            ELSE [m |-> Q1, e |-> e0]

\* (f as uW) % 16 with Rust's saturating float-to-int cast (f >= 0, W >= 4).
FTruncMod16(f) ==
    IF f.m = 0 THEN 0
    ELSE IF f.e >= 0 THEN
             IF MANT + f.e > W THEN 15                      \* saturated to 2^W - 1
             ELSE IF f.e >= 4 THEN 0
             ELSE ((f.m % 16) * 2^f.e) % 16
    ELSE IF 0 - f.e >= MANT THEN 0
    ELSE (f.m \div 2^(0 - f.e)) % 16

\* The legacy formula on words.
FQRatio(q, q3) == FTruncMod16(FDiv(FOfWord(WMulWrap(q, 100)), FOfWord(q3)))

=============================================================================
