------------------------------ MODULE MCStream ------------------------------
(***************************************************************************)
(* Every reader script over {deliver 1..BufLen bytes, Interrupted, hard     *)
(* error, EOF, misreport} against the read loop of Stream.tla.             *)
(*   Safety:  no hard error => the outcome is the reference hash of the    *)
(*            delivered bytes; the first hard error e => IOError(e);       *)
(*            interruptions never change the outcome; misreport => Panic.  *)
(*   Liveness (SPECIFICATION FairSpec): a reader that interrupts only      *)
(*            finitely often and eventually ends lets the run terminate.   *)
(***************************************************************************)
EXTENDS Stream

CONSTANTS BufLen, MaxData, MaxInterrupts, Alphabet

VARIABLES st,          \* the loop state of Stream.tla
          delivered,   \* history: all bytes handed over so far
          ints,        \* history: number of interruptions so far
          hardErr      \* history: the first hard error, or "none"

vars == <<st, delivered, ints, hardErr>>
SV == VNormal

Pieces == UNION {[1..n -> Alphabet] : n \in 1..BufLen}

Init == st = StreamStart(SV) /\ delivered = <<>> /\ ints = 0 /\ hardErr = "none"

Reading == st.pc = "Reading"

ReadOk == /\ Reading
          /\ \E d \in Pieces :
                /\ Len(delivered) + Len(d) <= MaxData
                /\ st' = SReadOk(SV, st, d)
                /\ delivered' = delivered \o d
          /\ UNCHANGED <<ints, hardErr>>
ReadInterrupted == /\ Reading /\ ints < MaxInterrupts
                   /\ st' = SReadInterrupted(SV, st) /\ ints' = ints + 1
                   /\ UNCHANGED <<delivered, hardErr>>
ReadErr == /\ Reading
           /\ \E e \in {"Other", "UnexpectedEof"} :
                 st' = SReadErr(SV, st, e) /\ hardErr' = e
           /\ UNCHANGED <<delivered, ints>>
\* a reader that claims bytes it never wrote: the loop hashes its own buffer content
ReadLie == /\ Reading /\ st.bufKnown
           /\ \E n \in 1..BufLen :
                 /\ Len(delivered) + n <= MaxData
                 /\ st' = SReadLie(SV, st, n)
                 /\ delivered' = delivered \o BufPrefix(st.buf, n)
           /\ UNCHANGED <<ints, hardErr>>
ReadEof == /\ Reading /\ st' = SReadEof(SV, st) /\ UNCHANGED <<delivered, ints, hardErr>>
ReadMisreport == /\ Reading /\ st' = SReadMisreport(SV, st) /\ hardErr' = "misreport"
                 /\ UNCHANGED <<delivered, ints>>

Next == ReadOk \/ ReadLie \/ ReadInterrupted \/ ReadErr \/ ReadEof \/ ReadMisreport
Spec == Init /\ [][Next]_vars

\* Safety
OutcomeCorrect ==
    st.pc = "Done" =>
        CASE hardErr = "none"      -> st.outcome = [kind |-> "Hash", r |-> RefHash(SV, delivered, DefaultOptions)]
          [] hardErr = "misreport" -> st.outcome = [kind |-> "Panic"]
          [] OTHER                 -> st.outcome = [kind |-> "IOError", e |-> hardErr]
StateMatchesDelivered == st.sg = AbsState(SV, delivered)
\* the buffer never holds anything but zeros and bytes the reader delivered
BufferIsZerosOrDelivered == \A i \in 1..Len(st.buf) : st.buf[i] \in Alphabet \cup {0}

\* Liveness: the environment eventually stops delivering/interrupting (the
\* bounds above) and the loop keeps calling read (weak fairness on the
\* terminating answers once nothing else is enabled is an assumption about
\* the reader: it eventually reports EOF or an error).
FairSpec == Spec /\ WF_vars(ReadEof \/ ReadErr \/ ReadMisreport)
Terminates == <>(st.pc = "Done")
=============================================================================
