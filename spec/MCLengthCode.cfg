CONSTANTS
    W = 32
    TopTab <- TopLimbs32
INIT Init
NEXT Next
