----------------------------- MODULE MCPeriodic -----------------------------
(* The closed form for periodic input agrees with stepping byte by byte.   *)
EXTENDS Generator
Pats == {<<7>>, <<164, 14>>, <<1, 2, 3>>, <<0, 255, 0, 9>>, <<65, 66, 67, 68, 69>>,
         <<12, 200, 33, 41, 250, 6, 77, 190, 3, 118, 91>>}
Agree(v, pat, pre, k) ==
    LET g0 == GenUpdate(v, GenNew(v), PeriodicData(pat, 0, pre)) IN
    GenUpdatePeriodic(v, g0, pat, pre, k) = GenUpdate(v, g0, PeriodicData(pat, pre, k))
ASSUME \A v \in {VShort, VNormal, VLong} : \A pat \in Pats : \A pre \in {0, 1, 3, 4, 5, 9} :
           \A k \in {0, 1, 3, 16, 17, 18, 21, 40, 300, 777} : Agree(v, pat, pre, k)
\* three-byte checksums: buckets by the closed form, the checksum stepped
ASSUME \A v \in {VNormalLC, VLongLC} : \A pat \in Pats : \A pre \in {0, 2, 5, 9} :
           \A k \in {0, 3, 16, 17, 21, 50, 300, 777} : Agree(v, pat, pre, k)
\* the wide closed form agrees with the narrow one (and hence with stepping)
AgreeW(v, pat, pre, k) ==
    LET g0 == GenUpdate(v, GenNew(v), PeriodicData(pat, 0, pre)) IN
    GenUpdatePeriodicWide(v, g0, pat, WOfNat(pre), WOfNat(k), <<>>) = GenUpdate(v, g0, PeriodicData(pat, pre, k))
ASSUME \A v \in {VShort, VNormal, VLong} : \A pat \in Pats : \A pre \in {4, 5, 9, 11} :
           \A k \in {0, 1, 3, 4, 5, 21, 300, 777} : PeriodicPreW(v, GenUpdate(v, GenNew(v), PeriodicData(pat, 0, pre)), pat, WOfNat(pre))
                                                     /\ AgreeW(v, pat, pre, k)
VARIABLE x
Init == x = 0
Next == UNCHANGED x
=============================================================================
