------------------------------ MODULE Distance ------------------------------
(***************************************************************************)
(* The TLSH distance between two hash values of the same variant.          *)
(***************************************************************************)
EXTENDS HashCodec

AbsDiff(x, y) == IF x >= y THEN x - y ELSE y - x
\* Distance on the ring Z/n.
RingDist(x, y, n) == LET d == ((x - y) + n) % n IN IF d <= n - d THEN d ELSE n - d

\* Body: per pair of dibits |x - y|, with 3 replaced by 6.
DibitDist(x, y) == IF AbsDiff(x, y) = 3 THEN 6 ELSE AbsDiff(x, y)
DibitAt(b, k) == (b \div (4 ^ k)) % 4
ByteDist(x, y) ==
    DibitDist(DibitAt(x, 0), DibitAt(y, 0)) + DibitDist(DibitAt(x, 1), DibitAt(y, 1))
    + DibitDist(DibitAt(x, 2), DibitAt(y, 2)) + DibitDist(DibitAt(x, 3), DibitAt(y, 3))
\* computed once when the module is loaded
ByteDistTab == [x \in Byte |-> [y \in Byte |-> ByteDist(x, y)]]

SumSeq(s) == FoldLeft(LAMBDA acc, x : acc + x, 0, s)
BodyDist(a, b) == SumSeq([i \in 1..Len(a) |-> ByteDistTab[a[i]][b[i]]])

\* Checksum: one per differing byte.
CkDist(a, b) == Cardinality({i \in 1..Len(a) : a[i] # b[i]})

\* Q ratios: each nibble on the ring mod 16; d if d <= 1 else (d-1)*12.
QDist1(x, y) == LET d == RingDist(x, y, 16) IN IF d <= 1 THEN d ELSE (d - 1) * 12
QDist(qa, qb) == QDist1(qa % 16, qb % 16) + QDist1(qa \div 16, qb \div 16)

\* Length codes on the ring mod 256; d if d <= 1 else d*12.
LDist(x, y) == LET d == RingDist(x, y, 256) IN IF d <= 1 THEN d ELSE d * 12

Dist(v, a, b, noLength) ==
    BodyDist(HBody(v, a), HBody(v, b))
    + CkDist(HChecksum(v, a), HChecksum(v, b))
    + QDist(HQByte(v, a), HQByte(v, b))
    + (IF noLength THEN 0 ELSE LDist(HLenCode(v, a), HLenCode(v, b)))

MaxBodyDist(v) == 6 * v.nb
MaxDist(v, noLength) == MaxBodyDist(v) + v.ckLen + 2 * 7 * 12 + (IF noLength THEN 0 ELSE 128 * 12)

\* A pair attaining the maximum (C08): all dibits 0 vs 3, all checksum bytes
\* different, Q ratios 0 vs 8 in both nibbles, length codes 0 vs 128.
MaxWitnessA(v) == [i \in 1..SizeBytes(v) |-> 0]
MaxWitnessB(v) == [i \in 1..SizeBytes(v) |->
                     IF i <= v.ckLen THEN 1
                     ELSE IF i = v.ckLen + 1 THEN 128
                     ELSE IF i = v.ckLen + 2 THEN 136
                     ELSE 255]

ASSUME \A x, y \in 0..3 : DibitDist(x, y) = DibitDist(y, x) /\ (DibitDist(x, y) = 0 <=> x = y)
ASSUME DibitDist(0, 3) = 6 /\ DibitDist(1, 3) = 2 /\ DibitDist(0, 1) = 1
ASSUME ByteDistTab[0][255] = 24 /\ ByteDistTab[255][0] = 24 /\ ByteDistTab[27][27] = 0
ASSUME \A v \in RealVariants : \A nl \in BOOLEAN :
          Dist(v, MaxWitnessA(v), MaxWitnessB(v), nl) = MaxDist(v, nl)
ASSUME MaxDist(VNormal, FALSE) = 768 + 1 + 168 + 1536

=============================================================================
