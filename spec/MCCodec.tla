------------------------------ MODULE MCCodec ------------------------------
(***************************************************************************)
(* Laws of the codec on toy variants (8 buckets: 2 body bytes; checksum of *)
(* 1 or 3 bytes), exhaustively over                                        *)
(*   (a) all hash values whose bytes range over a set of byte classes;     *)
(*   (b) all texts of the five interesting lengths that are hexadecimal    *)
(*       digits except at up to two positions, which range over a          *)
(*       16-symbol alphabet of character classes, in every prefix mode,    *)
(*       lenient and strict.                                               *)
(* Also the serde round trip (Serde.tla) and the string-comparison helper  *)
(* semantics on these values.                                              *)
(***************************************************************************)
EXTENDS Distance, Serde

CONSTANTS ByteClasses, ToyName

\* '0' '9' 'A' 'F' 'a' 'f' 'G' 'g' '@' '/' ':' '`' 'T' '1' NUL 0xFF
CharClasses == {48, 57, 65, 70, 97, 102, 71, 103, 64, 47, 58, 96, 84, 49, 0, 255}
TV == IF ToyName = "Toy1" THEN VToy1 ELSE VToy3
N == SizeBytes(TV)

VARIABLES phase, h, k, txt
vars == <<phase, h, k, txt>>
\* phase "bytes": h is built byte by byte (k bytes chosen); phase "text": txt is a text

Init == phase = "bytes" /\ h = [i \in 1..N |-> 0] /\ k = 0 /\ txt = <<>>
ChooseByte == /\ phase = "bytes" /\ k < N
              /\ \E x \in ByteClasses : h' = [h EXCEPT ![k + 1] = x]
              /\ k' = k + 1 /\ UNCHANGED <<phase, txt>>
\* from the initial state: pick a length and a first faulty position ...
StartText == /\ phase = "bytes" /\ k = 0
             /\ \E L \in {LenStrNoPrefix(TV) - 1, LenStrNoPrefix(TV), LenStrNoPrefix(TV) + 1, LenStr(TV), LenStr(TV) + 1} :
                \E i \in 1..L : \E c \in CharClasses :
                   txt' = [p \in 1..L |-> IF p = i THEN c ELSE IF p = 1 THEN 84 ELSE IF p = 2 THEN 49 ELSE 51]
             /\ phase' = "text1" /\ UNCHANGED <<h, k>>
\* ... then a second one
SecondFault == /\ phase = "text1"
               /\ \E j \in 1..Len(txt) : \E c \in CharClasses : txt' = [txt EXCEPT ![j] = c]
               /\ phase' = "text2" /\ UNCHANGED <<h, k>>
Next == ChooseByte \/ StartText \/ SecondFault
Spec == Init /\ [][Next]_vars

-----------------------------------------------------------------------------
HashLaws ==
    (phase = "bytes" /\ k = N) =>
    /\ IsHashValue(TV, h)
    \* C04: text round trip through every mode that fits, canonical text
    /\ \A p \in BOOLEAN :
          LET s == ToHex(TV, h, p) IN
          /\ Len(s) = (IF p THEN LenStr(TV) ELSE LenStrNoPrefix(TV))
          /\ \A i \in (IF p THEN 3 ELSE 1)..Len(s) : s[i] \in (48..57) \cup (65..70)
          /\ \A mode \in {"None", IF p THEN "WithVersion" ELSE "Empty"} :
                /\ HexAccepted(TV, s, mode, FALSE)
                /\ HexDecode(TV, HexDigitsOf(TV, s, mode)) = h
                /\ HexAccepted(TV, s, mode, TRUE) <=> StrictValid(TV, h)
          /\ ~HexLengthOk(TV, s, IF p THEN "Empty" ELSE "WithVersion")
    \* C06: bytes round trip, layout, accessors
    /\ BytesAccepted(TV, h, FALSE) /\ (BytesAccepted(TV, h, TRUE) <=> StrictValid(TV, h))
    /\ h = HChecksum(TV, h) \o <<HLenCode(TV, h)>> \o <<HQ2(TV, h) * 16 + HQ1(TV, h)>> \o HBody(TV, h)
    /\ \A g \in 0..(BodyLen(TV) - 1) :
          HBody(TV, h)[BodyLen(TV) - g] = HQuartile(TV, h, 4 * g) + 4 * HQuartile(TV, h, 4 * g + 1)
                                          + 16 * HQuartile(TV, h, 4 * g + 2) + 64 * HQuartile(TV, h, 4 * g + 3)
    /\ LET c == HClearChecksum(TV, h) IN
          /\ \A i \in 1..N : c[i] = (IF i <= TV.ckLen THEN 0 ELSE h[i])
          /\ Dist(TV, c, h, FALSE) = CkDist(HChecksum(TV, h), [i \in 1..TV.ckLen |-> 0])
    \* C16: serde round trip in both kinds of format
    /\ \A human \in BOOLEAN : \A strict \in BOOLEAN :
          LET e == SerOf(TV, h, human) IN
          IF strict => StrictValid(TV, h)
          THEN DeAllows(TV, human, e.kind, e.payload, strict, ResOk(h))
          ELSE DeAllows(TV, human, e.kind, e.payload, strict, ResErr("x"))
    \* a string event handed to the compact-format visitor is an error, as is any non-string/bytes event
    /\ DeAllows(TV, FALSE, "str", ToHex(TV, h, TRUE), FALSE, ResErr("x"))
    /\ ~DeAllows(TV, FALSE, "str", ToHex(TV, h, TRUE), FALSE, ResOk(h))
    /\ \A human \in BOOLEAN : ~DeAllows(TV, human, "u64", h, FALSE, ResOk(h))
    \* C08 on one value
    /\ Dist(TV, h, h, FALSE) = 0 /\ Dist(TV, h, h, TRUE) = 0

TextLaws ==
    (phase \in {"text1", "text2"}) =>
    \A mode \in PrefixModes : \A strict \in BOOLEAN :
       LET acc  == HexAccepted(TV, txt, mode, strict)
           errs == ApplicableParseErrors(TV, txt, mode, strict)
           impl == ImplParseError(TV, txt, mode, strict) IN
       \* C05: accepted iff well-formed (and strict-valid); on failure some error applies
       /\ acc <=> (HexWellFormed(TV, txt, mode)
                   /\ (strict => StrictValid(TV, HexDecode(TV, HexDigitsOf(TV, txt, mode)))))
       /\ acc <=> (errs = {})
       /\ ("InvalidStringLength" \in errs) <=> ~HexLengthOk(TV, txt, mode)
       /\ ~HexLengthOk(TV, txt, mode) => errs = {"InvalidStringLength"}
       \* what the code does today is one of the applicable errors
       /\ (impl = "") <=> acc
       /\ ~acc => impl \in errs
       \* C15: strict accepts a subset of lenient, with the same value
       /\ HexAccepted(TV, txt, mode, TRUE) => HexAccepted(TV, txt, mode, FALSE)
       \* C04: an accepted text re-formats to its own upper-case form
       /\ HexAccepted(TV, txt, mode, FALSE) =>
             ToHex(TV, HexDecode(TV, HexDigitsOf(TV, txt, mode)), TRUE)
               = <<ChT, Ch1>> \o [i \in 1..Len(HexDigitsOf(TV, txt, mode)) |-> UpperOf(HexDigitsOf(TV, txt, mode)[i])]
=============================================================================
