-------------------------- MODULE MCFinalizeLattice --------------------------
(***************************************************************************)
(* The option lattice of finalisation, independent of reachability (C10):  *)
(* arbitrary bucket vectors over a small value set on a toy 8-bucket       *)
(* variant, every length class, all 32 x 32 option pairs.  W = 6.          *)
(***************************************************************************)
EXTENDS Generator

CONSTANTS Vals, Lens

ScaledTop == << <<0,1>>, <<0,2>>, <<0,3>>, <<0,5>>, <<0,7>>, <<1,3>>, <<2,1>>, <<3,1>>, <<4,6>>, <<7,1>> >>
LV == [name |-> "Lat", nb |-> 8, ckLen |-> 1, map |-> "p8", minNz |-> 5, min |-> 3, minCons |-> 6]

VARIABLES bk, k, n       \* buckets 0..k-1 are chosen; n = fed length (-1: not chosen yet, 64: "2^W or more")
vars == <<bk, k, n>>
Init == bk = BkZero(LV) /\ k = 0 /\ n = -1
ChooseBucket == /\ k < 8 /\ \E x \in Vals : bk' = [bk EXCEPT ![k] = WOfNat(x)]
                /\ k' = k + 1 /\ UNCHANGED n
ChooseLen == /\ k = 8 /\ n = -1 /\ \E m \in Lens : n' = m
             /\ UNCHANGED <<bk, k>>
Next == ChooseBucket \/ ChooseLen
Spec == Init /\ [][Next]_vars

NW == IF n >= 64 THEN WNone ELSE WOfNat(n)
Done == n # -1

\* All laws in one invariant so that the fan is computed once per state.
AllLaws ==
    Done =>
    LET fan == FinalizeFan(LV, bk, <<0>>, NW)
        val == LenValidity(NW, LV.min, LV.minCons)
        qs  == Quartiles(LV, bk)
        nz  == NonZeroCount(LV, bk) IN
    \* permissive options only widen acceptance and never change an accepted hash
    /\ FanLattice(fan)
    \* allowing three-quarter-empty buckets implies allowing half-empty ones
    /\ \A o \in Options : OptQuarter(o) => fan[o + 1] = fan[(IF OptHalf(o) THEN o - 8 ELSE o + 8) + 1]
    \* a length error exactly when the classification is an error for the mode and not waived;
    \* too large is never waivable
    /\ \A o \in Options :
          /\ (fan[o + 1].err \in {"TooSmallInput", "TooLargeInput"})
                <=> (ValidityIsErrOn(val, OptConservative(o)) /\ ~(OptSmall(o) /\ val # "TooLarge"))
          /\ (fan[o + 1].err = "TooLargeInput") <=> (val = "TooLarge")
    \* rejections come in the order length -> three-quarter-empty -> half-empty
    /\ \A o \in Options :
          /\ fan[o + 1].err = "BucketsAreThreeQuarterEmpty" => qs[3] = WZero /\ ~OptQuarter(o)
          /\ fan[o + 1].err = "BucketsAreHalfEmpty" =>
                nz < LV.minNz /\ ~OptHalf(o) /\ ~OptQuarter(o) /\ qs[3] # WZero
    \* the Q-ratio formula does not influence acceptance
    /\ \A o \in Options : fan[o + 1].ok = fan[(IF OptF32(o) THEN o - 2 ELSE o + 2) + 1].ok
    \* the sort-based quartiles are the rank-defined ones, in order
    /\ qs = <<RankValue(LV, bk, 2), RankValue(LV, bk, 4), RankValue(LV, bk, 6)>>
    /\ WLe(qs[1], qs[2]) /\ WLe(qs[2], qs[3])
\* not vacuous: each kind of outcome occurs somewhere (checked by the driver from coverage)
=============================================================================
