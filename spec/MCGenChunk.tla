----------------------------- MODULE MCGenChunk -----------------------------
(***************************************************************************)
(* Every chunking x clone point x interleaved finalize, in small scope.    *)
(*                                                                         *)
(* Two generator slots; slot 1 is created by cloning slot 0 (at most once  *)
(* per behaviour) and continued separately.  An update feeds any piece     *)
(* over Alphabet of any length 0 .. (MaxFed - bytes already fed).          *)
(* Finalisation has no effect on the state, so "finalize at every point,   *)
(* under all 32 option sets" is an invariant evaluated in every state.     *)
(*                                                                         *)
(* `fed` is the only history variable (bounded by MaxFed).  `act` records  *)
(* the last action with its source state; it exists for the replay         *)
(* configuration (one implementation test per transition) and is hidden    *)
(* by the VIEW in the exhaustive configuration.                            *)
(***************************************************************************)
EXTENDS Generator, HashCodec, Json

CONSTANTS Alphabet, MaxFed, VName, EmitReplay, AllowClone

VARIABLES gens, act
vars == <<gens, act>>
MV == VariantByName(VName)

Free == [live |-> FALSE]
Slots == {0, 1}
Pieces(n) == UNION {[1..k -> Alphabet] : k \in 0..n}

Init == /\ gens = [s \in Slots |-> IF s = 0 THEN [live |-> TRUE, st |-> GenNew(MV), fed |-> <<>>] ELSE Free]
        /\ act = [kind |-> "new"]

Feed(s, piece) ==
    /\ gens' = [gens EXCEPT ![s] = [live |-> TRUE, st |-> GenUpdate(MV, gens[s].st, piece),
                                    fed |-> gens[s].fed \o piece]]
    /\ act' = [kind |-> "update", slot |-> s, src |-> gens[s].st, piece |-> piece]

\* one action per branch of update(), so that coverage shows each was taken
UpdFillOnly == \E s \in Slots : gens[s].live /\ \E p \in Pieces(MaxFed - Len(gens[s].fed)) :
                   BrFillOnly(gens[s].st, Len(p)) /\ Feed(s, p)
UpdFillAndRun == \E s \in Slots : gens[s].live /\ \E p \in Pieces(MaxFed - Len(gens[s].fed)) :
                   gens[s].st.tailLen < 4 /\ BrRun(gens[s].st, Len(p)) /\ Feed(s, p)
UpdRunPartialTail == \E s \in Slots : gens[s].live /\ \E p \in Pieces(MaxFed - Len(gens[s].fed)) :
                   gens[s].st.tailLen = 4 /\ BrRun(gens[s].st, Len(p)) /\ Len(p) < 4 /\ Feed(s, p)
UpdRunFullTail == \E s \in Slots : gens[s].live /\ \E p \in Pieces(MaxFed - Len(gens[s].fed)) :
                   gens[s].st.tailLen = 4 /\ BrRun(gens[s].st, Len(p)) /\ Len(p) >= 4 /\ Feed(s, p)
CloneAct == /\ AllowClone /\ gens[0].live /\ ~gens[1].live
            /\ gens' = [gens EXCEPT ![1] = gens[0]]
            /\ act' = [kind |-> "clone", src |-> gens[0].st]

Next == UpdFillOnly \/ UpdFillAndRun \/ UpdRunPartialTail \/ UpdRunFullTail \/ CloneAct
Spec == Init /\ [][Next]_vars

Live == {s \in Slots : gens[s].live}

\* C03: the concrete machine is in the state the reference assigns to the bytes it has seen
Refinement == \A s \in Live : gens[s].st = AbsState(MV, gens[s].fed)
PlenExact == \A s \in Live : GenProcessedLen(gens[s].st) = AbsProcessedLen(Len(gens[s].fed))
WellFormed == \A s \in Live : GenWellFormed(MV, gens[s].st)
\* C01: finalisation under every option set equals the reference on the same bytes
RefFan(fed) == FinalizeFan(MV, RefBuckets(MV, fed), RefChecksum(MV, fed), WOfNat(Len(fed)))
FinalizeIsReference == \A s \in Live : GenFan(MV, gens[s].st) = RefFan(gens[s].fed)
\* C10: permissive options only widen acceptance
Lattice == \A s \in Live : FanLattice(GenFan(MV, gens[s].st))
\* C15 / C09: every hash produced is strict-valid and carries the code of the fed length
ProducedValid ==
    \A s \in Live :
        LET fan == GenFan(MV, gens[s].st)
            code == LenCode(WOfNat(Len(gens[s].fed))) IN
        \A i \in 1..32 : fan[i].ok => /\ IsHashValue(MV, fan[i].h) /\ StrictValid(MV, fan[i].h)
                                      /\ HLenCode(MV, fan[i].h) = code
\* some option set does produce a hash (the invariants above are not vacuous)
SomeHashProduced == \A s \in Live : Len(gens[s].fed) >= 5 => GenFan(MV, gens[s].st)[32].ok

\* Replay (specification -> implementation): one line per transition.
StateJson(st) == [bk |-> [i \in 1..MV.nb |-> st.bk[i - 1]], len |-> st.len, ck |-> st.ck,
                  tail |-> st.tail, tailLen |-> st.tailLen]
ReplayLine ==
    IF ~EmitReplay \/ act.kind = "new" THEN TRUE
    ELSE LET dst == IF act.kind = "clone" THEN gens[1].st ELSE gens[act.slot].st IN
         PrintT("REPLAY " \o ToJson([v |-> VName, kind |-> act.kind, src |-> StateJson(act.src),
                                    piece |-> IF act.kind = "update" THEN act.piece ELSE <<>>,
                                    dst |-> StateJson(dst), plen |-> GenProcessedLen(dst),
                                    fan |-> GenFan(MV, dst)]))
StateView == gens
=============================================================================
