------------------------------ MODULE Options ------------------------------
(***************************************************************************)
(* GeneratorOptions as a record with the builder calls as actions, the     *)
(* mapping to the option numbers of Reference.tla, and the error taxonomy  *)
(* (categories and Display texts).  Beyond the listed properties: part of  *)
(* the growing account of the library's behaviour.                         *)
(***************************************************************************)
EXTENDS Naturals, Sequences

OptionsNew == [cons |-> FALSE, pureInt |-> FALSE, small |-> FALSE, half |-> FALSE, quarter |-> FALSE]

\* one builder call [name, value]
ApplyCall(o, call) ==
    CASE call[1] = "length_mode_conservative"  -> [o EXCEPT !.cons = call[2]]
      [] call[1] = "pure_integer"              -> [o EXCEPT !.pureInt = call[2]]
      [] call[1] = "allow_small"               -> [o EXCEPT !.small = call[2]]
      [] call[1] = "allow_half"                -> [o EXCEPT !.half = call[2]]
      [] call[1] = "allow_quarter"             -> [o EXCEPT !.quarter = call[2]]

RECURSIVE ApplyCalls(_, _)
ApplyCalls(o, calls) == IF calls = <<>> THEN o ELSE ApplyCalls(ApplyCall(o, Head(calls)), Tail(calls))

\* the option number of Reference.tla (bit 1 = legacy f32 formula = NOT pure integer)
B2N(b) == IF b THEN 1 ELSE 0
OptionNumber(o) == B2N(o.cons) + 2 * B2N(~o.pureInt) + 4 * B2N(o.small) + 8 * B2N(o.half) + 16 * B2N(o.quarter)
IsTlshCompatible(o) == ~o.small /\ ~o.half /\ ~o.quarter

-----------------------------------------------------------------------------
GeneratorErrorCategory(e) ==
    CASE e \in {"TooLargeInput", "TooSmallInput"} -> "DataLength"
      [] e \in {"BucketsAreHalfEmpty", "BucketsAreThreeQuarterEmpty"} -> "DataDistribution"

ErrorText(e) ==
    CASE e = "TooLargeInput" -> "input data is too large to process"
      [] e = "TooSmallInput" -> "input data is too small to process"
      [] e = "BucketsAreHalfEmpty" -> "approximately half or more effective buckets are empty"
      [] e = "BucketsAreThreeQuarterEmpty" -> "approximately 3/4 or more effective buckets are empty"
      [] e = "LengthIsTooLarge" -> "length field is too large"
      [] e = "InvalidPrefix" -> "encountered an invalid prefix"
      [] e = "InvalidCharacter" -> "encountered an invalid character"
      [] e = "InvalidStringLength" -> "string length is invalid"
      [] e = "InvalidChecksum" -> "has an invalid checksum field"
      [] e = "BufferIsTooSmall" -> "buffer is too small to store the result"

EitherText(side, e) ==
    "error occurred while parsing fuzzy hash " \o (IF side = "Left" THEN "1" ELSE "2") \o " (" \o ErrorText(e) \o ")"
=============================================================================
