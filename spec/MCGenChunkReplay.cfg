CONSTANTS
    W = 32
    MANT = 24
    TopTab <- TopLimbs32
    Alphabet = {164, 14}
    MaxFed = 7
    VName = "Normal"
    EmitReplay = TRUE
    AllowClone = FALSE
SPECIFICATION Spec
INVARIANT Refinement
INVARIANT PlenExact
INVARIANT WellFormed
INVARIANT FinalizeIsReference
INVARIANT Lattice
INVARIANT ProducedValid
INVARIANT SomeHashProduced
INVARIANT ReplayLine
CHECK_DEADLOCK FALSE
