------------------------------- MODULE Serde -------------------------------
(***************************************************************************)
(* serde: what a hash serializes to, and what deserialization returns as a *)
(* function of (human-readable?, the event the format hands the visitor,   *)
(* its payload, strict?).  Never a panic.                                  *)
(***************************************************************************)
EXTENDS HashCodec

\* What is handed to the serializer: [kind |-> "str" | "bytes", payload].
SerOf(v, h, human) ==
    IF human THEN [kind |-> "str", payload |-> ToHex(v, h, TRUE)]
             ELSE [kind |-> "bytes", payload |-> h]

StrEvents   == {"str", "borrowed_str", "string"}
BytesEvents == {"bytes", "borrowed_bytes", "byte_buf"}

\* The type hint the implementation may give the format.
HintAllowed(human, hint) ==
    IF human THEN hint \in {"str", "string"} ELSE hint \in {"bytes", "byte_buf"}

\* Is r = [ok, err, h] an allowed result of deserializing this event?
\* Human-readable formats go through the text parser in auto-detect mode
\* (whether the format delivers the text as a string or as bytes);
\* compact formats through the byte parser; everything else is an error.
DeAllows(v, human, ev, payload, strict, r) ==
    IF human /\ ev \in StrEvents \cup BytesEvents
    THEN IF HexAccepted(v, payload, "None", strict)
         THEN r.ok /\ r.h = HexDecode(v, HexDigitsOf(v, payload, "None"))
         ELSE ~r.ok
    ELSE IF ~human /\ ev \in BytesEvents
    THEN IF BytesAccepted(v, payload, strict) THEN r.ok /\ r.h = payload ELSE ~r.ok
    ELSE ~r.ok

\* Framing of real formats (lengths below 256 are all we need).
JsonString(s)   == <<34>> \o s \o <<34>>
CborBytes(b)    == (IF Len(b) < 24 THEN <<64 + Len(b)>> ELSE <<88, Len(b)>>) \o b
CborText(s)     == (IF Len(s) < 24 THEN <<96 + Len(s)>> ELSE <<120, Len(s)>>) \o s
PostcardBytes(b) == <<Len(b)>> \o b            \* varint length, < 128

SerDoc(v, h, fmt) ==
    CASE fmt = "json"     -> JsonString(ToHex(v, h, TRUE))
      [] fmt = "cbor"     -> CborBytes(h)
      [] fmt = "postcard" -> PostcardBytes(h)
=============================================================================
