----------------------------- MODULE TraceHash -----------------------------
(***************************************************************************)
(* Trace specification for everything that is a function of hash values    *)
(* and texts: formatting, parsing, binary conversion, caller buffers,      *)
(* comparison (whole hashes, parts, every body-distance back end), the     *)
(* string comparison helpers, serde, and the stage functions of the hex    *)
(* codec.  There is no state besides the cursor: each line is judged on    *)
(* its own against HashCodec.tla / Distance.tla / Serde.tla.               *)
(* STRICT is the strictness of the build that produced the trace.          *)
(***************************************************************************)
EXTENDS Distance, Serde, Alloc, Options, Json, IOUtils, TLCExt

Rec == ndJsonDeserialize(IOEnv.TRACE)
STRICT == IOEnv.STRICT = "1"

VARIABLE l
vars == <<l>>

Ev == Rec[l]
IsEvent(k) == l <= Len(Rec) /\ Ev.e = k /\ l' = l + 1
NoPanic == Ev.p = ""
Clean == Ev.p = "" /\ AllocOk(Ev.e, Ev.a)

V == VariantByName(Ev.v)
Txt(s) == s                     \* texts are already sequences of byte values

\* Results of buffer stores: [ok |-> BOOLEAN, n |-> Nat, err |-> STRING]
StoreAllows(v, h, form, L, pre, r, post) ==
    LET N == FormSize(v, form) IN
    IF L < N THEN ~r.ok /\ r.err = "BufferIsTooSmall"
    ELSE /\ r.ok /\ r.n = N
         /\ SubSeq(post, 1, N) = FormRepr(v, h, form)
         /\ SubSeq(post, N + 1, L) = SubSeq(pre, N + 1, L)        \* bytes beyond are untouched

-----------------------------------------------------------------------------
(* Formatting, accessors (C04, C06).                                       *)

TFmt ==
    /\ IsEvent("fmt") /\ Clean
    /\ LET v == V
           h == Ev.h IN
       /\ IsHashValue(v, h)
       /\ Ev.display = ToHex(v, h, TRUE)
       /\ Ev.tostring = ToHex(v, h, TRUE)
       \* Display ignores width, fill, alignment and precision: always the whole canonical text
       /\ \A i \in 1..Len(Ev.display_spec) : Ev.display_spec[i] = ToHex(v, h, TRUE)
       /\ Ev.hexp = ToHex(v, h, TRUE)
       /\ Ev.hex = ToHex(v, h, FALSE)
       /\ Ev.bytes = h
       /\ Len(Ev.hexp) = LenStr(v) /\ Len(Ev.hex) = LenStrNoPrefix(v)
       /\ \A i \in 3..Len(Ev.hexp) : Ev.hexp[i] \in (48..57) \cup (65..70)     \* upper-case digits only
       /\ Ev.ck = HChecksum(v, h) /\ Ev.lv = HLenCode(v, h) /\ Ev.q = HQByte(v, h)
       /\ Ev.q1 = HQ1(v, h) /\ Ev.q2 = HQ2(v, h) /\ Ev.body = HBody(v, h)
       /\ Ev.lv_valid = LvValid(v, h) /\ Ev.ck_valid = CkValid(v, h)
       /\ Len(Ev.quart) = v.nb
       /\ \A i \in 0..(v.nb - 1) : Ev.quart[i + 1] = HQuartile(v, h, i)
       /\ Ev.qpanic # ""                                          \* quartile(nb): the documented panic
       /\ Ev.cleared = HClearChecksum(v, h)
       /\ Ev.consts = <<v.nb, SizeBytes(v), LenStrNoPrefix(v), LenStr(v)>>

\* One position of the byte image swept over all 256 values.
TFmtSweep ==
    /\ IsEvent("fmt_sweep") /\ Clean
    /\ LET v == V IN
       /\ Len(Ev.texts) = 256
       /\ \A x \in 0..255 :
             LET h == [Ev.base EXCEPT ![Ev.pos] = x] IN
             /\ Ev.texts[x + 1] = ToHex(v, h, TRUE)
             /\ Ev.back[x + 1] = 1                                \* parse(format(h)) = h, every entry point

-----------------------------------------------------------------------------
(* Parsing (C04, C05, C15).                                                *)

CanonicalOf(v, s, mode) ==
    <<ChT, Ch1>> \o [i \in 1..Len(HexDigitsOf(v, s, mode)) |-> UpperOf(HexDigitsOf(v, s, mode)[i])]

TParse ==
    /\ IsEvent("parse") /\ Clean
    /\ LET v == V IN
       /\ ParseHexAllows(v, Ev.s, Ev.mode, STRICT, Ev.r)
       /\ Ev.r.ok => Ev.refmt = CanonicalOf(v, Ev.s, Ev.mode)

\* rs[x+1]: 0 = accepted, otherwise an error number; oks: <<x, hash>> pairs.
ErrName(k) == CASE k = 1 -> "InvalidStringLength" [] k = 2 -> "InvalidPrefix" [] k = 3 -> "InvalidCharacter"
                [] k = 4 -> "LengthIsTooLarge" [] k = 5 -> "InvalidChecksum" [] OTHER -> "Unknown"
TParseSweep ==
    /\ IsEvent("parse_sweep") /\ Clean
    /\ LET v == V IN
       /\ Len(Ev.rs) = 256
       /\ \A x \in 0..255 :
             LET s == [Ev.base EXCEPT ![Ev.pos] = x]
                 okh == {p \in {Ev.oks[i] : i \in 1..Len(Ev.oks)} : p[1] = x}
                 r == IF Ev.rs[x + 1] = 0
                      THEN ResOk((CHOOSE p \in okh : TRUE)[2])
                      ELSE ResErr(ErrName(Ev.rs[x + 1]))
             IN  /\ (Ev.rs[x + 1] = 0) => Cardinality(okh) = 1
                 /\ ParseHexAllows(v, s, Ev.mode, STRICT, r)

TFromBytes ==
    /\ IsEvent("frombytes") /\ Clean
    /\ LET v == V IN
       /\ FromBytesAllows(v, Ev.b, STRICT, Ev.r)
       /\ Ev.r.ok => Ev.back = Ev.b                                \* stores back to the same bytes

TStore ==
    /\ IsEvent("store") /\ Clean
    /\ StoreAllows(V, Ev.h, Ev.form, Ev.L, Ev.pre, Ev.r, Ev.post)
    /\ Ev.outside_ok                                     \* nothing outside the caller's slice was touched

-----------------------------------------------------------------------------
(* Comparison (C02, C08).                                                  *)

TCmp ==
    /\ IsEvent("cmp") /\ Clean
    /\ LET v == V
           a == Ev.a1
           b == Ev.b1
           d == Dist(v, a, b, FALSE)
           n == Dist(v, a, b, TRUE) IN
       /\ Ev.d_ab = d /\ Ev.n_ab = n /\ Ev.d_cmp = d               \* compare() = Default mode
       /\ Ev.parts = <<BodyDist(HBody(v, a), HBody(v, b)), CkDist(HChecksum(v, a), HChecksum(v, b)),
                       QDist(HQByte(v, a), HQByte(v, b)), LDist(HLenCode(v, a), HLenCode(v, b))>>
       \* the laws, stated on the observed values
       /\ Ev.d_ba = Ev.d_ab /\ Ev.n_ba = Ev.n_ab                   \* symmetric
       /\ Ev.d_aa = 0 /\ Ev.d_bb = 0 /\ Ev.n_aa = 0                \* reflexive
       /\ (Ev.d_ab = 0 => a = b)                                   \* identity (default mode)
       /\ Ev.max_def = MaxDist(v, FALSE) /\ Ev.max_nolen = MaxDist(v, TRUE)
       /\ Ev.d_ab <= Ev.max_def /\ Ev.n_ab <= Ev.max_nolen         \* bounded
       /\ Ev.d_ab = Ev.n_ab + Ev.parts[4]
       /\ Ev.d_clear = Ev.d_ab - Ev.parts[2]                       \* clearing both checksums
       /\ Ev.n_clear = Ev.n_ab - Ev.parts[2]

\* 256 x 256 tables through the public part accessors.
TDistMatrix ==
    /\ IsEvent("dist_matrix") /\ Clean
    /\ Len(Ev.m) = 65536
    /\ \A x, y \in 0..255 :
          Ev.m[x * 256 + y + 1] = (CASE Ev.part = "q" -> QDist(x, y)
                                     [] Ev.part = "l" -> LDist(x, y)
                                     [] Ev.part = "ck" -> (IF x = y THEN 0 ELSE 1))

\* One body position swept over all pairs of byte values, per back end.
\* BodyDist is additive over positions by definition, so the background
\* contributes a constant.
TBodyMatrix ==
    /\ IsEvent("bdist_matrix") /\ NoPanic
    /\ Len(Ev.m) = 65536 /\ Len(Ev.A) = Ev.size /\ Len(Ev.B) = Ev.size
    /\ LET base == BodyDist(Ev.A, Ev.B) - ByteDistTab[Ev.A[Ev.pos]][Ev.B[Ev.pos]] IN
       \A x, y \in 0..255 : Ev.m[x * 256 + y + 1] = base + ByteDistTab[x][y]

TBodyDist ==
    /\ IsEvent("bdist") /\ NoPanic
    /\ Ev.d = BodyDist(Ev.A, Ev.B)

-----------------------------------------------------------------------------
(* String comparison helpers (C13).                                        *)

TCmpStr ==
    /\ IsEvent("cmpstr") /\ NoPanic
    /\ LET v == V IN
       /\ ParseHexAllows(v, Ev.ls, "None", STRICT, Ev.pl)
       /\ ParseHexAllows(v, Ev.rs, "None", STRICT, Ev.pr)
       /\ IF Ev.pl.ok /\ Ev.pr.ok
          THEN Ev.res.ok /\ Ev.res.d = Dist(v, Ev.pl.h, Ev.pr.h, FALSE) /\ Ev.res.d = Ev.dd
          ELSE IF ~Ev.pl.ok
          THEN ~Ev.res.ok /\ Ev.res.side = "Left" /\ Ev.res.err = Ev.pl.err
          ELSE ~Ev.res.ok /\ Ev.res.side = "Right" /\ Ev.res.err = Ev.pr.err

-----------------------------------------------------------------------------
(* Stage functions of the hex codec (C05 e), 65 536-cell matrices:         *)
(* m[c1*256+c2+1] = decoded byte, or -1.                                   *)

TDecodeMatrix ==
    /\ IsEvent("decode_matrix") /\ NoPanic
    /\ Len(Ev.m) = 65536
    /\ \A c1, c2 \in 0..255 :
          Ev.m[c1 * 256 + c2 + 1] =
              (IF IsHexDigit(c1) /\ IsHexDigit(c2)
               THEN (IF Ev.rev THEN HexVal(c1) + 16 * HexVal(c2) ELSE 16 * HexVal(c1) + HexVal(c2))
               ELSE -1)

TEncodeTable ==
    /\ IsEvent("encode_table") /\ NoPanic
    /\ Len(Ev.m) = 256
    /\ \A x \in 0..255 :
          Ev.m[x + 1] = (IF Ev.rev THEN <<HexUpper(x % 16), HexUpper(x \div 16)>>
                                   ELSE <<HexUpper(x \div 16), HexUpper(x % 16)>>)

-----------------------------------------------------------------------------
(* serde (C16).                                                            *)

\* serialization through real formats and through the recording mock
TSer ==
    /\ IsEvent("ser") /\ NoPanic
    /\ LET v == V IN
       /\ IsHashValue(v, Ev.h)
       /\ Ev.json.ok /\ Ev.json.doc = SerDoc(v, Ev.h, "json")
       /\ Ev.cbor.ok /\ Ev.cbor.doc = SerDoc(v, Ev.h, "cbor")
       /\ Ev.postcard.ok /\ Ev.postcard.doc = SerDoc(v, Ev.h, "postcard")
       /\ Ev.mock_h = SerOf(v, Ev.h, TRUE) /\ Ev.mock_c = SerOf(v, Ev.h, FALSE)
       \* ... and back
       /\ Ev.back_json = ResOk(Ev.h) /\ Ev.back_cbor = ResOk(Ev.h) /\ Ev.back_postcard = ResOk(Ev.h)

\* deserialization of one visitor event from the scripted mock format
TDe ==
    /\ IsEvent("de") /\ NoPanic
    /\ HintAllowed(Ev.human, Ev.hint)
    /\ DeAllows(V, Ev.human, Ev.ev, Ev.payload, STRICT, Ev.r)

\* deserialization of a document of a real format: `kind` says what the
\* document holds ("str" / "bytes" with that payload, or something else)
TDeDoc ==
    /\ IsEvent("de_doc") /\ NoPanic
    /\ LET human == Ev.fmt = "json"
           ev == CASE Ev.kind = "str" -> "str" [] Ev.kind = "bytes" -> "bytes" [] OTHER -> "other" IN
       DeAllows(V, human, ev, Ev.payload, STRICT, Ev.r)

-----------------------------------------------------------------------------
(* Bucket aggregation back ends (C01 e, C07): any q1 <= q2 <= q3.          *)

TAgg ==
    /\ IsEvent("agg") /\ NoPanic
    /\ LET av == [nb |-> Ev.nb]
           bk == [i \in 0..(Ev.nb - 1) |-> Ev.bk[i + 1]] IN
       /\ WLe(Ev.q[1], Ev.q[2]) /\ WLe(Ev.q[2], Ev.q[3])
       /\ Ev.out = BodyOf(av, bk, Ev.q[1], Ev.q[2], Ev.q[3])

-----------------------------------------------------------------------------
(* Beyond the listed properties: options, error taxonomy, equality laws.   *)

\* a sequence of builder calls on GeneratorOptions::new(); `fin` is the result of
\* finalizing a fixed generator with the built options, `fan` the 32-option fan
\* of the same generator
TOpts ==
    /\ IsEvent("opts") /\ NoPanic
    /\ LET o == ApplyCalls(OptionsNew, Ev.calls) IN
       /\ Ev.compatible = IsTlshCompatible(o)
       /\ Ev.eq_new = (o = OptionsNew)                 \* PartialEq: equal iff all settings equal
       /\ Ev.eq_default = (o = OptionsNew)             \* Default::default() == new()
       /\ Ev.fin = Ev.fan[OptionNumber(o) + 1]

TErrs ==
    /\ IsEvent("errs") /\ NoPanic
    /\ \A i \in 1..Len(Ev.gen) :
          /\ Ev.gen[i].category = GeneratorErrorCategory(Ev.gen[i].name)
          /\ Ev.gen[i].text = ErrorText(Ev.gen[i].name)
    /\ \A i \in 1..Len(Ev.other) : Ev.other[i].text = ErrorText(Ev.other[i].name)
    /\ \A i \in 1..Len(Ev.either) : Ev.either[i].text = EitherText(Ev.either[i].side, Ev.either[i].name)
    /\ Ev.defaults = <<"WithVersion", "Default", "Optimistic">>

\* Debug formatting of the public value types: the text is unspecified; every call returns and is not empty
TDbg ==
    /\ IsEvent("dbg") /\ NoPanic
    /\ Len(Ev.lens) >= 16 /\ \A i \in 1..Len(Ev.lens) : Ev.lens[i] > 0

\* PartialEq / Clone / Copy on hash values: equal iff the byte images are equal
TEq ==
    /\ IsEvent("eq") /\ Clean
    /\ Ev.eq = (Ev.a1 = Ev.b1) /\ Ev.eq_rev = Ev.eq /\ Ev.clone_eq /\ Ev.self_eq

TraceNext ==
    \/ (TFmt /\ TRUE) \/ TFmtSweep \/ TParse \/ TParseSweep \/ TFromBytes \/ TStore
    \/ TSer \/ TDe \/ TDeDoc \/ TAgg \/ TOpts \/ TErrs \/ TEq \/ TDbg
    \/ TCmp \/ TDistMatrix \/ TBodyMatrix \/ TBodyDist \/ TCmpStr \/ TDecodeMatrix \/ TEncodeTable

TraceInit == l = 1
TraceSpec == TraceInit /\ [][TraceNext]_vars

TraceAccepted ==
    LET d == TLCGet("stats").diameter IN
    IF d = Len(Rec) + 1 THEN TRUE
    ELSE /\ PrintT(<<"TRACE-REJECTED at line", d, "of", Len(Rec)>>)
         /\ PrintT(<<"event", IF d <= Len(Rec) THEN [e |-> Rec[d].e, p |-> Rec[d].p] ELSE "none">>)
         /\ FALSE

=============================================================================
