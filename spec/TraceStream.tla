----------------------------- MODULE TraceStream -----------------------------
(***************************************************************************)
(* Trace specification for hash_stream / hash_file (C12) and for readers   *)
(* that misreport (C17).  The reader is harness code, so every read call   *)
(* the library makes is logged with what the reader answered; the trace    *)
(* is accepted iff the sequence of calls and the returned value are a      *)
(* behaviour of Stream.tla.                                                *)
(***************************************************************************)
EXTENDS Stream, HashCodec, Json, IOUtils, TLCExt
ToHexS(fv, h) == ToHex(fv, h, TRUE)

Rec == ndJsonDeserialize(IOEnv.TRACE)
VARIABLES l, s, v
vars == <<l, s, v>>
Ev == Rec[l]
IsEvent(k) == l <= Len(Rec) /\ Ev.e = k /\ l' = l + 1

Idle == [pc |-> "Idle"]

\* the value returned by the library, as recorded, against a specification outcome
OutcomeMatches(r, o) ==
    CASE o.kind = "Hash"    -> r.kind = "Hash" /\ r.r = o.r
      [] o.kind = "IOError" -> r.kind = "IOError" /\ r.e = o.e
      [] o.kind = "Panic"   -> r.kind = "Panic"
      [] OTHER -> FALSE

TBegin == /\ IsEvent("stream_begin") /\ s.pc \in {"Idle"}
          /\ v' = VariantByName(Ev.v) /\ s' = StreamStart(VariantByName(Ev.v))

TRead ==
    /\ IsEvent("read") /\ s.pc = "Reading"            \* the loop must not read again after it is done
    /\ LET k == Ev.ret.kind IN
       CASE k = "ok"  -> /\ Len(Ev.ret.data) >= 1 /\ Len(Ev.ret.data) <= Ev.buflen
                         /\ s' = SReadOk(v, s, Ev.ret.data)
         [] k = "okp" -> /\ Ev.ret.n >= 1 /\ Ev.ret.n <= Ev.buflen
                         /\ s' = SReadOkPeriodic(v, s, Ev.ret.pat, Ev.ret.off, Ev.ret.n)
         [] k = "okp_run" -> /\ Ev.ret.n >= 1 /\ Ev.ret.n <= Ev.buflen /\ Ev.ret.count >= 1 /\ v.ckLen = 1
                             /\ s' = SReadOkRun(v, s, Ev.ret.pat, Ev.ret.off, Ev.ret.n, Ev.ret.count)
         [] k = "lie" -> /\ Ev.ret.n >= 1 /\ Ev.ret.n <= Ev.buflen /\ s.bufKnown
                         /\ s' = SReadLie(v, s, Ev.ret.n)
         [] k = "int" -> s' = SReadInterrupted(v, s)              \* (any number of them in a row: stuttering)
         [] k = "int_okp_run" -> /\ Ev.ret.n >= 1 /\ Ev.ret.n <= Ev.buflen /\ Ev.ret.count >= 1 /\ v.ckLen = 1
                                 \* count x (Interrupted; n bytes): the interruptions change nothing
                                 /\ s' = SReadOkRun(v, s, Ev.ret.pat, Ev.ret.off, Ev.ret.n, Ev.ret.count)
         [] k = "err" -> s' = SReadErr(v, s, Ev.ret.err)
         [] k = "eof" -> s' = SReadEof(v, s)
         [] k = "mis" -> /\ Ev.ret.n > Ev.buflen
                         /\ s' = SReadMisreport(v, s)
    /\ UNCHANGED v

TEnd ==
    /\ IsEvent("stream_end") /\ s.pc = "Done"         \* ... and must not return before it is done
    /\ OutcomeMatches(Ev.r, s.outcome)
    /\ (Ev.hb.kind # "None" /\ s.outcome.kind = "Hash") => Ev.r = Ev.hb     \* = hash_buf(delivered), same process
    /\ s' = Idle /\ UNCHANGED v

\* hash_file on a file with periodic content of the given size
TFile ==
    /\ IsEvent("file") /\ s.pc = "Idle"
    /\ LET fv == VariantByName(Ev.v)
           g  == GenUpdatePeriodic(fv, GenNew(fv), Ev.pat, 0, Ev.size) IN
       /\ Ev.r.kind = "Hash"
       /\ Ev.r.r = GenFinalize(fv, g, DefaultOptions)
    /\ UNCHANGED <<s, v>>
\* hash_file on a file whose content the harness read itself (e.g. procfs: size 0 in metadata)
TFileData ==
    /\ IsEvent("file_data") /\ s.pc = "Idle"
    /\ LET fv == VariantByName(Ev.v) IN
       /\ Ev.r.kind = "Hash"
       /\ Ev.r.r = GenFinalize(fv, GenUpdate(fv, GenNew(fv), Ev.data), DefaultOptions)
    /\ UNCHANGED <<s, v>>
\* hash_file on a sparse regular file: `head` then zeros up to `size` (a wide number, above 2^31)
TFileWide ==
    /\ IsEvent("file_wide") /\ s.pc = "Idle"
    /\ LET fv   == VariantByName(Ev.v)
           \* the closed form assumes the four bytes before the run belong to it: 8 zeros go byte by byte
           g1   == GenUpdate(fv, GenNew(fv), Ev.head \o <<0, 0, 0, 0, 0, 0, 0, 0>>)
           runW == WSub(<<Ev.size[1], Ev.size[2]>>, WOfNat(Len(Ev.head) + 8))
           g2   == GenUpdatePeriodicWide(fv, g1, <<0>>, WZero, runW, <<>>)
       IN /\ fv.ckLen = 1 /\ Len(Ev.head) >= 8
          /\ Ev.r.kind = "Hash"
          /\ Ev.r.r = GenFinalize(fv, g2, DefaultOptions)
    /\ UNCHANGED <<s, v>>
\* hash_file on a file whose content changes underneath it: only the KIND of outcome is judged (never a panic)
TFileAny ==
    /\ IsEvent("file_any") /\ s.pc = "Idle"
    /\ Ev.kind \in {"Hash", "IOError"}
    /\ UNCHANGED <<s, v>>
TFileErr ==
    /\ IsEvent("file_err") /\ s.pc = "Idle"
    /\ Ev.r.kind = "IOError"
    /\ (Ev.why = "missing" => Ev.r.e = "NotFound")
    /\ UNCHANGED <<s, v>>

\* the example program examples/hash-file.rs as a client of hash_file: one output line per file,
\* "<T1 hash | TNULL | IOERR, left-aligned to the hash width> <file name>"
PadTo(txt, n) == txt \o [i \in 1..(IF Len(txt) < n THEN n - Len(txt) ELSE 0) |-> 32]
TExample ==
    /\ IsEvent("example") /\ s.pc = "Idle"
    /\ LET fv == VNormal
           g  == GenUpdatePeriodic(fv, GenNew(fv), Ev.pat, 0, Ev.size)
           r  == GenFinalize(fv, g, DefaultOptions)
           word == IF Ev.missing THEN <<73, 79, 69, 82, 82>>                        \* "IOERR"
                   ELSE IF r.ok THEN ToHexS(fv, r.h) ELSE <<84, 78, 85, 76, 76>>   \* "TNULL"
       IN Ev.line = PadTo(word, 72) \o <<32>> \o Ev.name
    /\ UNCHANGED <<s, v>>

\* one output line per file argument, none without arguments
TExampleCount == IsEvent("example_count") /\ s.pc = "Idle" /\ Ev.lines = Ev.files /\ UNCHANGED <<s, v>>

TraceNext == TExampleCount \/ TBegin \/ TRead \/ TEnd \/ TFile \/ TFileData \/ TFileWide \/ TFileAny \/ TFileErr \/ TExample
TraceSpec == l = 1 /\ s = Idle /\ v = VNormal /\ [][TraceNext]_vars

TraceAccepted ==
    LET d == TLCGet("stats").diameter IN
    IF d = Len(Rec) + 1 THEN TRUE
    ELSE /\ PrintT(<<"TRACE-REJECTED at line", d, "of", Len(Rec)>>)
         /\ PrintT(<<"event", IF d <= Len(Rec) THEN [e |-> Rec[d].e] ELSE "none">>)
         /\ FALSE
=============================================================================
