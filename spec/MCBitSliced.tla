---------------------------- MODULE MCBitSliced ----------------------------
EXTENDS BitSliced
VARIABLE x
Init == x = 0
Next == UNCHANGED x
=============================================================================
