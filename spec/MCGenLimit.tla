----------------------------- MODULE MCGenLimit -----------------------------
(***************************************************************************)
(* The counter logic at a narrow word width (C11).  W = 6, so words hold   *)
(* 0..63, the length saturates at 2^W - 4 = 60, buckets wrap at 64, and    *)
(* the scaled length table <<1,2,3,5,7,11,17,25,38,57>> puts MAX = 57      *)
(* below that, as 4 224 281 216 < 2^32 - 4 in the real library.  The input *)
(* is periodic, so the bytes fed are determined by their number `n`, which *)
(* is the only history variable.  Every piece size crosses every boundary. *)
(***************************************************************************)
EXTENDS Generator

CONSTANTS Pattern, PieceSizes, MaxN

PatA == <<164, 14>>
PatB == <<7>>
PatC == <<1, 2, 250>>
ScaledTop == << <<0,1>>, <<0,2>>, <<0,3>>, <<0,5>>, <<0,7>>, <<1,3>>, <<2,1>>, <<3,1>>, <<4,6>>, <<7,1>> >>
\* 8 buckets, every triplet lands in a bucket, tiny minimum lengths
LV == [name |-> "Lim", nb |-> 8, ckLen |-> 1, map |-> "p8", minNz |-> 5, min |-> 3, minCons |-> 6]

VARIABLES g, n
vars == <<g, n>>
Data(k) == PeriodicData(Pattern, 0, k)

Init == g = GenNew(LV) /\ n = 0
Feed(k) == /\ n + k <= MaxN
           /\ g' = GenUpdate(LV, g, PeriodicData(Pattern, n, k))
           /\ n' = n + k
UpdFillOnly   == \E k \in PieceSizes : BrFillOnly(g, k) /\ Feed(k)
UpdRun        == \E k \in PieceSizes : BrRun(g, k) /\ Feed(k)
UpdTruncated  == \E k \in PieceSizes : BrTruncated(g, k) /\ Feed(k)
UpdIgnoredAtLimit == \E k \in PieceSizes : BrIgnored(g, k) /\ Feed(k)
Next == UpdFillOnly \/ UpdRun \/ UpdTruncated \/ UpdIgnoredAtLimit
Spec == Init /\ [][Next]_vars

TwoW == 2 ^ W
MaxNat == WNat(MaxLenW)

NoCounterLeavesTheWord == GenWellFormed(LV, g)
\* the machine is in the state the reference assigns to the first 2^W bytes
Refinement == g = AbsState(LV, Data(n))
\* exact below 2^W, unknown from 2^W on
ProcessedLenExact == GenProcessedLen(g) = (IF n < TwoW THEN WOfNat(n) ELSE WNone)
\* too large exactly above MAX, under every option set
TooLargeIffAboveMax ==
    \A o \in Options : (GenFinalize(LV, g, o).err = "TooLargeInput") <=> n > MaxNat
\* up to MAX the result is the reference on the same bytes (top code at MAX)
ReferenceUpToMax == n <= MaxNat => \A o \in {0, 2, 29, 31} : GenFinalize(LV, g, o) = RefHash(LV, Data(n), o)
TopCodeAtMax == n = MaxNat => /\ GenFinalize(LV, g, 31).ok
                              /\ GenFinalize(LV, g, 31).h[2] = NumCodes - 1
\* once the limit is reached nothing changes any more
FrozenAfterLimit == [][g.len = MaxGenLen => g' = g]_vars
=============================================================================
