------------------------------ MODULE TraceGen ------------------------------
(***************************************************************************)
(* Trace specification for the generator family.  Every line of the        *)
(* recorded NDJSON trace is one event of the real generator; the trace is  *)
(* accepted iff it is a behaviour of Generator.tla / Reference.tla.        *)
(*                                                                         *)
(* Events (all carry "a" = allocator calls during the library calls and    *)
(* "p" = panic message, "" if none):                                       *)
(*   gen_new     g v st            gen_inject  g v st                      *)
(*   gen_update  g data st plen    gen_clone   g g2 st                     *)
(*   gen_fin     g fan def st plen gen_consts  v min minc max              *)
(*   dlv         v n val is_err err_opt err_cons                           *)
(* The specification steps the concrete machine for every update and, for  *)
(* generators whose whole input is known and short, re-derives the state   *)
(* and every result from the declarative reference as well.                *)
(***************************************************************************)
EXTENDS Generator, HashCodec, Alloc, Json, IOUtils, TLCExt

Rec == ndJsonDeserialize(IOEnv.TRACE)
AbsLimit == 96          \* re-derive from Reference.tla when at most this many bytes were fed

VARIABLES l, gens
vars == <<l, gens>>

Slots == 0..3
Free == [live |-> FALSE]

\* JSON state -> generator record
StateOfJson(v, st) ==
    [bk      |-> [i \in 0..(v.nb - 1) |-> st.bk[i + 1]],
     len     |-> st.len,
     ck      |-> st.ck,
     tail    |-> st.tail,
     tailLen |-> st.tailLen]
JsonStateShapeOk(v, st) ==
    /\ Len(st.bk) = v.nb /\ Len(st.ck) = v.ckLen /\ Len(st.tail) = 4

Ev == Rec[l]
IsEvent(k) == l <= Len(Rec) /\ Ev.e = k /\ l' = l + 1
Clean == Ev.p = "" /\ AllocOk(Ev.e, Ev.a)      \* no panic (C17), allocation budget (C18, Alloc.tla)

\* A successful result is a hash the strict parser would accept (C15) and
\* carries the code of the fed length (C09).
OkResultsValid(v, fan, n) ==
    LET code == LenCode(n) IN
    \A i \in 1..32 : fan[i].ok =>
        /\ IsHashValue(v, fan[i].h)
        /\ StrictValid(v, fan[i].h)
        /\ HLenCode(v, fan[i].h) = code

TraceInit == l = 1 /\ gens = [s \in Slots |-> Free]

TNew ==
    /\ IsEvent("gen_new") /\ Clean
    /\ LET v == VariantByName(Ev.v) IN
       /\ JsonStateShapeOk(v, Ev.st)
       /\ StateOfJson(v, Ev.st) = GenNew(v)
       /\ gens' = [gens EXCEPT ![Ev.g] = [live |-> TRUE, v |-> v, st |-> GenNew(v),
                                          known |-> TRUE, fed |-> <<>>]]

\* An arbitrary well-formed state (the verification import hook).  The bytes
\* that led to it are unknown, so only the concrete machine is stepped.
TInject ==
    /\ IsEvent("gen_inject")
    /\ LET v  == VariantByName(Ev.v)
           st == StateOfJson(v, Ev.st) IN
       /\ JsonStateShapeOk(v, Ev.st)
       /\ GenWellFormed(v, st)
       /\ (v.map = "p48" => st.ck[1] <= 48)       \* only reachable checksums
       /\ gens' = [gens EXCEPT ![Ev.g] = [live |-> TRUE, v |-> v, st |-> st,
                                          known |-> FALSE, fed |-> <<>>]]

TUpdate ==
    /\ IsEvent("gen_update") /\ Clean
    /\ gens[Ev.g].live
    /\ LET s   == gens[Ev.g]
           new == GenUpdate(s.v, s.st, Ev.data)
           fed2 == IF s.known /\ Len(s.fed) + Len(Ev.data) <= AbsLimit THEN s.fed \o Ev.data ELSE <<>>
           known2 == s.known /\ Len(s.fed) + Len(Ev.data) <= AbsLimit IN
       /\ JsonStateShapeOk(s.v, Ev.st)
       /\ StateOfJson(s.v, Ev.st) = new                        \* full concrete state
       /\ Ev.plen = GenProcessedLen(new)                       \* processed_len()
       /\ known2 => /\ new = AbsState(s.v, fed2)               \* chunking independence (C03)
                    /\ Ev.plen = AbsProcessedLen(Len(fed2))
       /\ gens' = [gens EXCEPT ![Ev.g] = [s EXCEPT !.st = new, !.known = known2, !.fed = fed2]]

\* A long periodic delivery (possibly billions of bytes, possibly many native
\* update calls) judged in one step through the closed form of Generator.tla.
\* For three-byte checksums the second and third byte are not computed (their
\* joint cycle can be 2^24 long): they are taken from the observation.
TUpdateP ==
    /\ IsEvent("gen_update_p") /\ Clean
    /\ gens[Ev.g].live
    /\ LET s    == gens[Ev.g]
           lead == IF WLe(WOfNat(8), Ev.n) THEN 8 ELSE WNat(Ev.n)
           g1   == GenUpdate(s.v, s.st, PeriodicData(Ev.pat, WModSmall(Ev.off, Len(Ev.pat)), lead))
           off1 == WAddNat(Ev.off, lead)
           n1   == WSub(Ev.n, WOfNat(lead))
           \* bytes 2 and 3 of a three-byte checksum: stepped by TLC for segments below 4 MiB, otherwise taken from
           \* the observation (their joint cycle is too long for a period map; DESIGN.md 3.3)
           rest == IF s.v.ckLen = 3 /\ n1[1] < 64 /\ n1 # WZero /\ ~WLe(MaxGenLen, g1.len)
                   THEN SubSeq(CkStepped(s.v, g1.ck, Ev.pat, WModSmall(off1, Len(Ev.pat)), WNat(n1)), 2, 3)
                   ELSE SubSeq(Ev.st.ck, 2, s.v.ckLen)
           new  == IF n1 = WZero THEN g1
                   ELSE IF WLe(MaxGenLen, g1.len) THEN g1
                   ELSE GenUpdatePeriodicWide(s.v, g1, Ev.pat, off1, n1, rest)
           cmp  == IF s.v.ckLen = 1 THEN new ELSE [new EXCEPT !.ck = <<new.ck[1]>> \o rest] IN
       /\ JsonStateShapeOk(s.v, Ev.st)
       /\ (n1 # WZero /\ ~WLe(MaxGenLen, g1.len)) => PeriodicPreW(s.v, g1, Ev.pat, off1)
       /\ StateOfJson(s.v, Ev.st) = cmp
       /\ Ev.plen = GenProcessedLen(cmp)
       /\ gens' = [gens EXCEPT ![Ev.g] = [s EXCEPT !.st = StateOfJson(s.v, Ev.st), !.known = FALSE, !.fed = <<>>]]

TClone ==
    /\ IsEvent("gen_clone") /\ Clean
    /\ gens[Ev.g].live
    /\ StateOfJson(gens[Ev.g].v, Ev.st) = gens[Ev.g].st
    /\ gens' = [gens EXCEPT ![Ev.g2] = gens[Ev.g]]

TFin ==
    /\ IsEvent("gen_fin") /\ Clean
    /\ gens[Ev.g].live
    /\ LET s   == gens[Ev.g]
           n   == GenProcessedLen(s.st)
           fan == GenFan(s.v, s.st) IN
       /\ StateOfJson(s.v, Ev.st) = s.st                       \* finalize disturbs nothing
       /\ Ev.plen = n
       /\ \A i \in 1..32 : Ev.fan[i] = fan[i]                  \* every option set (C01)
       /\ Ev.def = fan[2 + 1]                                  \* finalize() = default options = legacy f32 formula
       /\ FanLattice(Ev.fan)                                   \* permissive options only widen (C10)
       /\ OkResultsValid(s.v, Ev.fan, n)
       /\ \A i \in 1..32 : Ev.fan[i].ok => Ev.rt[i] = 1           \* survives this build's parser (C15)
       /\ s.known => \A o \in {0, 2, 13, 31} : Ev.fan[o + 1] = RefHash(s.v, s.fed, o)
    /\ UNCHANGED gens

\* hash_buf / hash_buf_for: new, one update, finalize() - judged against the declarative reference
THashBuf ==
    /\ IsEvent("hash_buf") /\ Clean
    /\ Ev.r = RefHash(VariantByName(Ev.v), Ev.data, 2)
    /\ UNCHANGED gens

TConsts ==
    /\ IsEvent("gen_consts")
    /\ LET v == VariantByName(Ev.v) IN
       Ev.min = v.min /\ Ev.minc = v.minCons /\ Ev.max = MaxLenW
    /\ UNCHANGED gens

TDlv ==
    /\ IsEvent("dlv")
    /\ LET v   == VariantByName(Ev.v)
           val == LenValidity(Ev.n, v.min, v.minCons) IN
       /\ Ev.val = val
       /\ Ev.is_err = ValidityIsErr(val)
       /\ Ev.err_opt = ValidityIsErrOn(val, FALSE)
       /\ Ev.err_cons = ValidityIsErrOn(val, TRUE)
    /\ UNCHANGED gens

TraceNext == TNew \/ TInject \/ TUpdate \/ TUpdateP \/ THashBuf \/ TClone \/ TFin \/ TConsts \/ TDlv

TraceSpec == TraceInit /\ [][TraceNext]_vars

\* Accepted iff every line was consumed: one state per line plus the initial one.
TraceAccepted ==
    LET d == TLCGet("stats").diameter IN
    IF d = Len(Rec) + 1 THEN TRUE
    ELSE /\ PrintT(<<"TRACE-REJECTED at line", d, "of", Len(Rec)>>)
         /\ PrintT(<<"event", IF d <= Len(Rec) THEN [e |-> Rec[d].e, p |-> Rec[d].p, a |-> Rec[d].a] ELSE "none">>)
         /\ FALSE

=============================================================================
